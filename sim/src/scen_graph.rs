//! Scenario `graph` (C09): a random walk over the permitted calls of every flow state.
//!
//! History explored: which public method the caller invokes next (accessors, mutators, I/O
//! with drawn slices, readiness query, advance - also prematurely, also repeated after a call
//! has already decided), interleaved with the arrival of server bytes.

use ureq_proto::client::flow::RedirectAuthHeaders;
use ureq_proto::BodyMode;

use crate::ctx::{lib, set_observed, Ctx, R};
use crate::drive::{body_bytes, err_name, from_await100, from_recv_body, from_recv_response, from_send_request, FlowSt};
use crate::json::show_bytes;
use crate::refs::{dechunk_strict, find, parse_request_head, ref_redirect_method, Framing as RF};
use crate::reqgen::{gen_plain_headers, gen_valid_req};
use crate::scen_exchange::{build_resp, continue_100, make_prepare, ClSpec, RespPlan, RespSpec};
use crate::{ensure, fail};

const ST_NAMES: [&str; 8] = ["Prepare", "SendRequest", "Await100", "SendBody", "RecvResponse", "RecvBody", "Redirect", "Cleanup"];

fn gen_final(ctx: &mut Ctx, method: &str) -> RespPlan {
    loop {
        let status = match ctx.draw(8) {
            0 => *ctx.pick(&[301u16, 302, 303, 307, 308]),
            1 => *ctx.pick(&[301u16, 302, 307]),
            2 => 304,
            3 => 204,
            4 => ctx.range(101, 199) as u16,
            _ => *ctx.pick(&[200u16, 201, 404, 500, 403]),
        };
        let kind = ctx.draw(5);
        let http11 = kind == 2 || ctx.chance(3, 4);
        let (cl, te) = match kind {
            0 => (ClSpec::Absent, None),
            1 => (ClSpec::Num(ctx.range(0, 30) as u64), None),
            2 => (ClSpec::Absent, Some("chunked")),
            3 => (ClSpec::Num(0), None),
            _ => (ClSpec::Absent, None),
        };
        let location = if ((300..400).contains(&status) && status != 304 && ctx.chance(3, 4)) || (!(300..400).contains(&status) && ctx.chance(1, 8)) { vec![ctx.pick(&["/next", "http://b.test/x", "../y?z=1", "https://a.test/s"]).to_string()] } else { vec![] };
        let spec = RespSpec { status, http11, cl, te, conn: if ctx.chance(1, 4) { vec!["close"] } else { vec![] }, generic_fields: ctx.range(0, 2), location, location_raw: vec![], close_len: ctx.range(0, 40) };
        let p = build_resp(ctx, method, &spec);
        if !matches!(p.truth, RF::DontCare | RF::Error) {
            return p;
        }
    }
}

pub fn c09(ctx: &mut Ctx) -> R {
    set_observed(false);
    let mut cfg = gen_valid_req(ctx, true, true);
    if ctx.chance(1, 4) {
        // credentials on the original request (a redirect suppresses them), also as repeated fields
        cfg.orig.push(("cookie".into(), b"a=1".to_vec()));
        if ctx.flip() {
            cfg.orig.push(("Cookie".into(), b"b=2".to_vec()));
        }
        if ctx.flip() {
            cfg.orig.push(("authorization".into(), b"Basic eDp5".to_vec()));
            cfg.orig.push(("Authorization".into(), b"Basic ejp3".to_vec()));
        }
    }
    if ctx.chance(1, 4) {
        cfg.orig.push(("connection".into(), b"close".to_vec()));
    }
    // despite-method is applied by the walk itself in Prepare
    let want_despite = cfg.despite;
    cfg.despite = false;
    let want_added = std::mem::take(&mut cfg.added);
    // framing headers among the added ones go back to the original request
    for (n, v) in &want_added {
        if n == "content-length" || n == "transfer-encoding" || n == "host" {
            cfg.orig.push((n.clone(), v.clone()));
        }
    }
    let extra: Vec<_> = want_added.into_iter().filter(|(n, _)| n != "content-length" && n != "transfer-encoding" && n != "host").collect();
    // a body-less method with framing headers is only valid with despite: apply it first
    let has_framing = cfg.orig.iter().any(|(n, _)| n == "content-length" || n == "transfer-encoding");
    let must_despite_first = has_framing && !crate::refs::method_needs_body(&cfg.method);
    let body_seed = ctx.draw(1 << 32);
    let handshake_possible = cfg.expect;
    let script = ctx.draw(3); // 0 = 100 first, 1 = refusal / plain final, 2 = plain final
    let plan = gen_final(ctx, &cfg.method);
    let c100 = continue_100(ctx);
    let first_is_100 = handshake_possible && script == 0;
    let mut stream: Vec<u8> = Vec::new();
    if first_is_100 {
        stream.extend_from_slice(&c100);
    }
    let final_at = stream.len();
    stream.extend_from_slice(&plan.bytes());
    let msg_end = stream.len();
    stream.extend_from_slice(b"HTTP/1.1 200 OK\r\n\r\n");
    let first = if first_is_100 { &c100[..] } else { &plan.head_bytes[..] };
    let sl = find(first, b"\r\n").map(|i| i + 2).unwrap_or(first.len());
    let hl = first.len();
    let prot = plan.protected().map(|(a, b)| (final_at + a, final_at + b));
    ctx.sample(|| format!("{} despite={} extra headers={} | stream: {}{} {} {:?} ({} bytes)", cfg.summary(), want_despite, extra.len(), if first_is_100 { "100, " } else { "" }, plan.head.status, if plan.head.get_all("location").is_empty() { "no Location" } else { "Location" }, plan.truth, msg_end));

    let mut st = match make_prepare(&cfg) {
        Ok(f) => FlowSt::Prepare(f),
        Err(e) => fail!("FOREIGN", "", "cannot build flow: {}", e),
    };
    set_observed(true);

    // ---- model state
    let mut despite = false;
    let mut body_due = crate::refs::method_needs_body(&cfg.method);
    let mut wire: Vec<u8> = Vec::new();
    let mut head_done = false;
    let mut visible = 0usize;
    let mut consumed = 0usize;
    let mut looked_max = 0usize; // longest window offered to try_read_100 before a decision
    let mut decided_100 = false;
    let mut refused_by_lib = false;
    let mut body_total: u64 = 0; // request body length (sized) or bytes planned (chunked)
    let mut body_sent: u64 = 0;
    let mut body_planned: u64 = 0;
    let mut chunked_req = true;
    let mut terminator_sent = false;
    let mut end_signalled = false;
    let mut got_final = false;
    let mut resp_body: Vec<u8> = Vec::new();
    let mut called: u32 = 0;
    let mut extra_left = extra.clone();
    let mut calls = 0usize;
    let mut out = vec![0u8; 4096];
    let mut followed = false;
    let mut produced_new_flow = false;
    let mut interim_repolled = false;
    let mut asked_new_flow = false;
    let mut new_flow_cfg: Option<(String, bool)> = None; // (method, body due) of the flow produced by as_new_flow
    let mut stop_flag = false;
    let mut await_ambiguous = false;

    macro_rules! mark {
        ($bit:expr) => {
            called |= 1 << $bit
        };
    }

    while calls < 90 {
        calls += 1;
        ctx.steps += 1;
        let sidx = st.ord();
        // server bytes arrive independently of what the caller does
        if visible < stream.len() && ctx.chance(1, 3) {
            let mut nv = match ctx.draw(4) {
                0 => visible + 1,
                1 => stream.len(),
                2 => (visible + ctx.range(1, 40)).min(stream.len()),
                _ => *ctx.pick(&[sl, sl + 1, hl, final_at + plan.head_bytes.len(), msg_end]),
            }
            .min(stream.len())
            .max(visible);
            if let Some((a, b)) = prot {
                if nv >= a && nv < b {
                    nv = b;
                }
            }
            visible = nv;
            ctx.ev(|| format!("  [{} of {} server bytes visible]", visible, stream.len()));
        }
        let choice = ctx.draw(8) as u32;
        ctx.sig3(sidx, choice as u64, 0);
        ctx.cell(sidx as u32 * 8 + choice);
        let cur = std::mem::replace(&mut st, FlowSt::Gone);
        match cur {
            // ================================================================ Prepare
            FlowSt::Prepare(mut f) => {
                match choice {
                    0 => {
                        let m = lib("Flow<Prepare>::method", || f.method().as_str().to_string());
                        let want = new_flow_cfg.as_ref().map(|c| c.0.clone()).unwrap_or(cfg.method.clone());
                        ensure!(m == want, "C09.accessor", "Prepare.method() = {} != {}", m, want);
                        mark!(0);
                    }
                    1 => {
                        let _ = lib("Flow<Prepare>::uri", || f.uri().to_string());
                        let _ = lib("Flow<Prepare>::version", || f.version());
                        let _ = lib("Flow<Prepare>::headers", || f.headers().len());
                        mark!(1);
                    }
                    2 | 3 => {
                        if let Some((n, v)) = extra_left.pop() {
                            if let Err(e) = lib("Flow<Prepare>::header", || f.header(n.as_str(), v.as_slice())) {
                                fail!("C09.unexpected_error", "header", "header({:?}) failed: {}", n, e);
                            }
                            ctx.ev(|| format!("Prepare.header({:?})", n));
                        }
                        mark!(2);
                    }
                    4 => {
                        if (want_despite || must_despite_first) && new_flow_cfg.is_none() {
                            lib("Flow<Prepare>::send_body_despite_method", || f.send_body_despite_method());
                            despite = true;
                            body_due = true;
                            ctx.ev(|| "Prepare.send_body_despite_method()".to_string());
                            ctx.count("p:despite_method");
                        }
                        mark!(3);
                    }
                    _ => {
                        if must_despite_first && !despite && new_flow_cfg.is_none() {
                            st = FlowSt::Prepare(f);
                            continue;
                        }
                        let n = lib("Flow<Prepare>::proceed", || f.proceed());
                        ctx.ev(|| "Prepare.proceed() -> SendRequest".to_string());
                        st = FlowSt::SendRequest(n);
                        called = 0;
                        continue;
                    }
                }
                st = FlowSt::Prepare(f);
            }
            // ================================================================ SendRequest
            FlowSt::SendRequest(mut f) => {
                let ready = lib("Flow<SendRequest>::can_proceed", || f.can_proceed());
                if ready != head_done {
                    fail!("C09.readiness", "SendRequest", "SendRequest.can_proceed() = {} but the head on the wire is {}", ready, if head_done { "complete" } else { "incomplete" });
                }
                match choice {
                    0 | 1 | 2 => {
                        let n = match ctx.draw(4) {
                            0 => ctx.range(0, 30),
                            1 => ctx.range(0, 120),
                            _ => 4096,
                        };
                        let r = lib(if head_done { "repeat_Flow<SendRequest>::write" } else { "Flow<SendRequest>::write" }, || f.write(&mut out[..n]));
                        ctx.ev(|| format!("SendRequest.write(out={}) -> {:?}", n, r.as_ref().map_err(err_name)));
                        match r {
                            Ok(k) => {
                                ensure!(k <= n, "C09.count_out_of_bounds", "write produced {} > {}", k, n);
                                if head_done {
                                    ensure!(k == 0, "C09.write_after_head", "write after the complete head emitted {} bytes", k);
                                }
                                wire.extend_from_slice(&out[..k]);
                                if !head_done {
                                    if let Ok(Some(p)) = parse_request_head(&wire) {
                                        head_done = true;
                                        let te = p.fields.iter().any(|(n, v)| n == "transfer-encoding" && v.eq_ignore_ascii_case(b"chunked"));
                                        let cl = p.fields.iter().find(|(n, _)| n == "content-length").and_then(|(_, v)| std::str::from_utf8(v).ok()).and_then(|s| s.parse::<u64>().ok());
                                        chunked_req = te || cl.is_none();
                                        body_total = cl.unwrap_or(0);
                                        body_planned = if chunked_req { ctx.range(0, 40) as u64 } else { body_total };
                                        let bd = new_flow_cfg.as_ref().map(|c| c.1).unwrap_or(body_due);
                                        if bd {
                                            ensure!(te || cl.is_some(), "C09.no_framing_header", "a body is due but the head has no framing header: {:?}", show_bytes(&wire));
                                        }
                                    }
                                }
                            }
                            Err(ureq_proto::Error::OutputOverflow) => {
                                if n >= 4096 {
                                    fail!("C09.head_never_completes", if new_flow_cfg.is_some() { "redirected" } else { "" }, "a 4096-byte buffer holds any line of this request, yet write() reports output overflow (head so far: {:?})", show_bytes(&wire));
                                }
                            }
                            Err(e) => {
                                if let Some((m2, _)) = &new_flow_cfg {
                                    // a redirected request may be one that C17 refuses (an inherited
                                    // transfer-encoding header on what is now a body-less method)
                                    let eff: Vec<crate::drive::Hdr> = crate::reqgen::grouped(&cfg.orig).into_iter().filter(|(n, _)| n != "cookie" && n != "content-length" && n != "authorization").collect();
                                    let probe = crate::reqgen::ReqCfg { method: m2.clone(), version: cfg.version, uri: cfg.uri.clone(), orig: eff, added: vec![], despite: false, framing: crate::reqgen::Framing::None, expect: false };
                                    if crate::reqgen::classify(&probe, 0).0 == crate::reqgen::Validity::Valid {
                                        fail!("C09.redirected_flow_unusable", "", "the flow produced by as_new_flow ({} after a {}) refuses to write its request: {} (original request: {})", m2, plan.head.status, e, cfg.summary());
                                    }
                                    ctx.count("p:redirected_request_refused");
                                    ctx.nontrivial = true;
                                    return Ok(());
                                }
                                fail!("C09.unexpected_error", "SendRequest.write", "write of a valid request failed: {} [{}]", e, cfg.summary());
                            }
                        }
                        mark!(0);
                    }
                    3 => {
                        let m = lib("Flow<SendRequest>::method", || f.method().as_str().to_string());
                        let _ = lib("Flow<SendRequest>::uri", || f.uri().to_string());
                        let _ = lib("Flow<SendRequest>::version", || f.version());
                        let _ = m;
                        mark!(1);
                    }
                    4 => {
                        let r = lib("Flow<SendRequest>::headers_map", || f.headers_map().map(|m| m.len()));
                        if new_flow_cfg.is_none() {
                            ensure!(r.is_ok(), "C09.unexpected_error", "headers_map() failed: {:?}", r.err());
                        }
                        mark!(2);
                    }
                    _ => {
                        let premature = !head_done;
                        if premature && !ctx.chance(1, 12) {
                            st = FlowSt::SendRequest(f);
                            continue;
                        }
                        if !premature && (called & 0b111) != 0b111 && ctx.chance(3, 4) {
                            st = FlowSt::SendRequest(f);
                            continue;
                        }
                        let r = lib("Flow<SendRequest>::proceed", || f.proceed());
                        match r {
                            Ok(None) => {
                                ensure!(premature, "C09.readiness", "SendRequest.proceed() returned None although can_proceed() was true");
                                ctx.count("p:premature_proceed");
                                ctx.nontrivial = true;
                                return Ok(());
                            }
                            Ok(Some(n)) => {
                                ensure!(!premature, "C09.readiness", "SendRequest.proceed() advanced although the head is incomplete");
                                let next = from_send_request(n);
                                let bd = new_flow_cfg.as_ref().map(|c| c.1).unwrap_or(body_due);
                                let want = if bd { if cfg.expect { "Await100" } else { "SendBody" } } else { "RecvResponse" };
                                ctx.ev(|| format!("SendRequest.proceed() -> {}", next.name()));
                                if next.name() != want {
                                    fail!("C09.wrong_successor", "SendRequest", "after the head: {} but the graph prescribes {} (body due {}, Expect {})", next.name(), want, bd, cfg.expect);
                                }
                                ctx.cell(64 + 1 * 8 + next.ord() as u32);
                                if new_flow_cfg.is_some() {
                                    // the flow produced by a redirect is usable up to here; the redirect
                                    // world takes it from there
                                    ctx.count("p:redirected_flow_used");
                                    ctx.nontrivial = true;
                                    return Ok(());
                                }
                                st = next;
                                called = 0;
                                continue;
                            }
                            Err(e) => {
                                // an advance attempt that fails is an advance that did not succeed: the
                                // statement demands that exactly when the flow was not ready
                                if !premature {
                                    fail!("C09.unexpected_error", "SendRequest.proceed", "proceed failed although can_proceed() was true: {}", e);
                                }
                                ctx.count("p:premature_proceed");
                                ctx.nontrivial = true;
                                return Ok(());
                            }
                        }
                    }
                }
                st = FlowSt::SendRequest(f);
            }
            // ================================================================ Await100
            FlowSt::Await100(mut f) => {
                let keep = lib("Flow<Await100>::can_keep_await_100", || f.can_keep_await_100());
                match choice {
                    0 | 1 | 2 | 3 => {
                        let decided = decided_100 || refused_by_lib;
                        let w = &stream[consumed..visible];
                        let r = lib(if decided { "repeat_Flow<Await100>::try_read_100" } else { "Flow<Await100>::try_read_100" }, || f.try_read_100(w));
                        ctx.ev(|| format!("Await100.try_read_100(window={}) -> {:?}", w.len(), r.as_ref().map_err(err_name)));
                        let keep2 = lib("Flow<Await100>::can_keep_await_100", || f.can_keep_await_100());
                        if decided {
                            ctx.count("p:repeat_try_read_100");
                            if decided_100 && !w.is_empty() {
                                // the caller looked again after the 100 and saw more server bytes before
                                // sending the body: the statement does not decide what that means
                                await_ambiguous = true;
                            }
                            if let Ok(n) = r {
                                ensure!(n <= w.len(), "C09.count_out_of_bounds", "try_read_100 consumed {} > {}", n, w.len());
                                // the first decision stands; a repeated call may not consume the response
                                if refused_by_lib {
                                    ensure!(n == 0, "C09.repeat_consumed", "repeated try_read_100 after a refusal consumed {}", n);
                                } else {
                                    consumed += n;
                                    if n > 0 {
                                        // a second interim response was consumed: outside the menu
                                        ctx.nontrivial = true;
                                        return Ok(());
                                    }
                                }
                            }
                        } else {
                            match r {
                                Ok(n) => {
                                    ensure!(n <= w.len(), "C09.count_out_of_bounds", "try_read_100 consumed {} > {}", n, w.len());
                                    looked_max = looked_max.max(w.len());
                                    if n > 0 {
                                        decided_100 = true;
                                        consumed += n;
                                    } else if !keep2 {
                                        refused_by_lib = true;
                                    }
                                }
                                Err(e) => fail!("C09.unexpected_error", "try_read_100", "try_read_100 failed on well-formed input: {}", e),
                            }
                        }
                        mark!(0);
                    }
                    4 => {
                        let _ = keep;
                        mark!(1);
                    }
                    _ => {
                        if (called & 0b11) != 0b11 && ctx.chance(2, 3) {
                            st = FlowSt::Await100(f);
                            continue;
                        }
                        let r = lib("Flow<Await100>::proceed", || f.proceed());
                        match r {
                            Ok(n) => {
                                let next = from_await100(n);
                                ctx.ev(|| format!("Await100.proceed() -> {}", next.name()));
                                // ground truth zones
                                let must_refuse = !first_is_100 && looked_max >= hl;
                                let must_continue = first_is_100 || looked_max <= sl;
                                let want_refuse = if must_refuse { true } else if must_continue { false } else { refused_by_lib };
                                let want = if want_refuse { "RecvResponse" } else { "SendBody" };
                                if next.name() != want && !await_ambiguous {
                                    fail!("C09.wrong_successor", "Await100", "out of Await100: {} but the graph prescribes {} (first head is {}, longest look {} bytes, status line {} / head {})", next.name(), want, if first_is_100 { "100" } else { "a final response" }, looked_max, sl, hl);
                                }
                                ctx.cell(64 + 2 * 8 + next.ord() as u32);
                                st = next;
                                called = 0;
                                continue;
                            }
                            Err(e) => fail!("C09.unexpected_error", "Await100.proceed", "proceed failed: {}", e),
                        }
                    }
                }
                st = FlowSt::Await100(f);
            }
            // ================================================================ SendBody
            FlowSt::SendBody(mut f) => {
                let ready = lib("Flow<SendBody>::can_proceed", || f.can_proceed());
                // Content-Length: 0 before any end signal: all 0 bytes are accounted for, so the body
                // may be reported finished already or only after the signal - the statements of C04 /
                // C09 allow both; the model follows the library there and only demands that the
                // query and advancing agree
                let undecided = !chunked_req && body_total == 0 && !end_signalled;
                let model_ready = if undecided { ready } else if chunked_req { terminator_sent } else { body_sent == body_total && (body_total > 0 || end_signalled) };
                if ready != model_ready {
                    fail!("C09.readiness", "SendBody", "SendBody.can_proceed() = {} but the body is {} ({} body, {} of {} sent, terminator {})", ready, if model_ready { "complete" } else { "incomplete" }, if chunked_req { "chunked" } else { "sized" }, body_sent, if chunked_req { body_planned } else { body_total }, terminator_sent);
                }
                match choice {
                    0 | 1 | 2 => {
                        let left = body_planned - body_sent;
                        let piece = if left == 0 { 0 } else { (ctx.range(1, 24) as u64).min(left) as usize };
                        let n = match ctx.draw(3) {
                            0 => ctx.range(0, 12),
                            _ => 4096,
                        };
                        let input = body_bytes(body_seed, body_sent, piece);
                        let done_before = model_ready;
                        let r = lib(if done_before { "repeat_Flow<SendBody>::write" } else { "Flow<SendBody>::write" }, || f.write(&input, &mut out[..n]));
                        ctx.ev(|| format!("SendBody.write(in={}, out={}) -> {:?}", piece, n, r.as_ref().map_err(err_name)));
                        match r {
                            Ok((c, p)) => {
                                ensure!(c <= piece && p <= n, "C09.count_out_of_bounds", "write(in={}, out={}) returned ({}, {})", piece, n, c, p);
                                body_sent += c as u64;
                                if chunked_req {
                                    if piece == 0 && p > 0 {
                                        terminator_sent = true;
                                    }
                                    if let Ok(d) = dechunk_strict(&out[..p]) {
                                        if d.terminators > 0 {
                                            terminator_sent = true;
                                        }
                                    }
                                } else if piece == 0 {
                                    end_signalled = true;
                                }
                                if !chunked_req && body_sent == body_total {
                                    end_signalled = true;
                                }
                            }
                            Err(e) => fail!("C09.unexpected_error", "SendBody.write", "body write (in={}, out={}) failed: {}", piece, n, e),
                        }
                        mark!(0);
                    }
                    3 => {
                        let ch = lib("Flow<SendBody>::is_chunked", || f.is_chunked());
                        ensure!(ch == chunked_req, "C09.accessor", "is_chunked() = {} but the head announced {}", ch, if chunked_req { "chunked" } else { "content-length" });
                        let m = lib("Flow<SendBody>::calculate_max_input", || f.calculate_max_input(64));
                        ensure!(m <= 64, "C09.accessor", "calculate_max_input(64) = {}", m);
                        mark!(1);
                    }
                    4 => {
                        // a direct-write report of 0 bytes is permitted on a sized body; on a chunked one it is refused
                        let r = lib("Flow<SendBody>::consume_direct_write", || f.consume_direct_write(0));
                        if chunked_req {
                            // refused today (BodyIsChunked); the statement only demands that it does not panic
                            let _ = r;
                        } else {
                            ensure!(r.is_ok(), "C09.unexpected_error", "consume_direct_write(0) failed: {:?}", r.err());
                            if body_sent == body_total {
                                end_signalled = true;
                            }
                        }
                        mark!(2);
                    }
                    _ => {
                        let premature = !model_ready;
                        if premature && !ctx.chance(1, 12) {
                            st = FlowSt::SendBody(f);
                            continue;
                        }
                        if !premature && (called & 0b111) != 0b111 && ctx.chance(3, 4) {
                            st = FlowSt::SendBody(f);
                            continue;
                        }
                        match lib("Flow<SendBody>::proceed", || f.proceed()) {
                            None => {
                                ensure!(premature, "C09.readiness", "SendBody.proceed() returned None although the body is complete");
                                ctx.count("p:premature_proceed");
                                ctx.nontrivial = true;
                                return Ok(());
                            }
                            Some(n) => {
                                ensure!(!premature, "C09.readiness", "SendBody.proceed() advanced although the body is incomplete");
                                ctx.ev(|| "SendBody.proceed() -> RecvResponse".to_string());
                                ctx.cell(64 + 3 * 8 + 4);
                                st = FlowSt::RecvResponse(n);
                                called = 0;
                                continue;
                            }
                        }
                    }
                }
                st = FlowSt::SendBody(f);
            }
            // ================================================================ RecvResponse
            FlowSt::RecvResponse(mut f) => {
                let ready = lib("Flow<RecvResponse>::can_proceed", || f.can_proceed());
                if interim_repolled && !ready {
                    // the head handed out was a 1xx one and the caller has offered later bytes since:
                    // whether the flow still counts that head as its response is not decided by any
                    // statement; an implementation that waits for the next head ends the walk here
                    ctx.count("p:interim_head_withdrawn");
                    let adv = lib("Flow<RecvResponse>::proceed", || f.proceed());
                    ensure!(adv.is_none(), "C09.readiness", "RecvResponse.proceed() advanced although can_proceed() was false");
                    ctx.nontrivial = true;
                    return Ok(());
                }
                if ready != got_final {
                    fail!("C09.readiness", "RecvResponse", "RecvResponse.can_proceed() = {} but a final response has {}been returned", ready, if got_final { "" } else { "not " });
                }
                match choice {
                    0 | 1 | 2 | 3 => {
                        let w = &stream[consumed..visible];
                        let r = lib(if got_final { "repeat_Flow<RecvResponse>::try_response" } else { "Flow<RecvResponse>::try_response" }, || f.try_response(w));
                        ctx.ev(|| format!("RecvResponse.try_response(window={}) -> {}", w.len(), match &r { Ok((n, Some(x))) => format!("Ok(({}, Some({})))", n, x.status().as_u16()), Ok((n, None)) => format!("Ok(({}, None))", n), Err(e) => format!("Err({})", err_name(e)) }));
                        if got_final {
                            ctx.count("p:repeat_try_response");
                            if !w.is_empty() && (101..200).contains(&plan.head.status) {
                                interim_repolled = true;
                            }
                            // the first response stands; whatever a repeated call says, it may not panic
                            st = FlowSt::RecvResponse(f);
                            // a repeated call parses the next message in the window: stop the walk here,
                            // the successor oracle uses the first decision only
                            if let Ok((n, _)) = r {
                                if n > 0 {
                                    ctx.nontrivial = true;
                                    return Ok(());
                                }
                            }
                            mark!(0);
                            continue;
                        }
                        match r {
                            Ok((n, resp)) => {
                                ensure!(n <= w.len(), "C09.count_out_of_bounds", "try_response consumed {} > {}", n, w.len());
                                consumed += n;
                                if let Some(x) = resp {
                                    ensure!(x.status().as_u16() == plan.head.status, "C09.wrong_response", "status {} != {}", x.status().as_u16(), plan.head.status);
                                    got_final = true;
                                }
                            }
                            Err(e) => fail!("C09.unexpected_error", "try_response", "try_response failed on well-formed input: {}", e),
                        }
                        mark!(0);
                    }
                    _ => {
                        let premature = !got_final;
                        if premature && !ctx.chance(1, 12) {
                            st = FlowSt::RecvResponse(f);
                            continue;
                        }
                        match lib("Flow<RecvResponse>::proceed", || f.proceed()) {
                            None => {
                                ensure!(premature, "C09.readiness", "RecvResponse.proceed() returned None although a response was received");
                                ctx.count("p:premature_proceed");
                                ctx.nontrivial = true;
                                return Ok(());
                            }
                            Some(n) => {
                                ensure!(!premature, "C09.readiness", "RecvResponse.proceed() advanced before a response was received");
                                let next = from_recv_response(n);
                                let body_expected = match plan.truth {
                                    RF::Chunked | RF::Close => true,
                                    RF::Length(k) => k > 0,
                                    _ => false,
                                };
                                let want = if body_expected { "RecvBody" } else { plan.expect_terminal() };
                                ctx.ev(|| format!("RecvResponse.proceed() -> {}", next.name()));
                                if next.name() != want {
                                    fail!("C09.wrong_successor", "RecvResponse", "after status {} with framing {:?}: {} but the graph prescribes {}", plan.head.status, plan.truth, next.name(), want);
                                }
                                ctx.cell(64 + 4 * 8 + next.ord() as u32);
                                st = next;
                                called = 0;
                                continue;
                            }
                        }
                    }
                }
                st = FlowSt::RecvResponse(f);
            }
            // ================================================================ RecvBody
            FlowSt::RecvBody(mut f) => {
                let ready = lib("Flow<RecvBody>::can_proceed", || f.can_proceed());
                let body_end = msg_end;
                let model_ready = match plan.truth {
                    RF::Close => true,
                    _ => consumed == body_end,
                };
                if ready != model_ready {
                    fail!("C09.readiness", "RecvBody", "RecvBody.can_proceed() = {} but the body is {} ({} of {} message bytes consumed, framing {:?})", ready, if model_ready { "complete" } else { "incomplete" }, consumed, body_end, plan.truth);
                }
                match choice {
                    0 | 1 | 2 | 3 => {
                        let lim = if plan.truth == RF::Close { body_end } else { visible };
                        let w = &stream[consumed..lim.min(visible).max(consumed)];
                        let n = match ctx.draw(3) {
                            0 => ctx.range(0, 4),
                            _ => 4096,
                        };
                        let r = lib(if model_ready && plan.truth != RF::Close { "repeat_Flow<RecvBody>::read" } else { "Flow<RecvBody>::read" }, || f.read(w, &mut out[..n]));
                        ctx.ev(|| format!("RecvBody.read(window={}, out={}) -> {:?}", w.len(), n, r.as_ref().map_err(err_name)));
                        match r {
                            Ok((c, p)) => {
                                ensure!(c <= w.len() && p <= n, "C09.count_out_of_bounds", "read(window={}, out={}) returned ({}, {})", w.len(), n, c, p);
                                consumed += c;
                                resp_body.extend_from_slice(&out[..p]);
                                ensure!(consumed <= body_end, "C09.over_read", "read past the end of the message");
                            }
                            Err(e) => fail!("C09.unexpected_error", "RecvBody.read", "read failed: {}", e),
                        }
                        mark!(0);
                    }
                    4 => {
                        stop_flag = !stop_flag;
                        lib("Flow<RecvBody>::stop_on_chunk_boundary", || f.stop_on_chunk_boundary(stop_flag));
                        let _ = lib("Flow<RecvBody>::is_on_chunk_boundary", || f.is_on_chunk_boundary());
                        mark!(1);
                    }
                    5 => {
                        let bm = lib("Flow<RecvBody>::body_mode", || f.body_mode());
                        let ok = match (plan.truth, bm) {
                            (RF::Chunked, BodyMode::Chunked) => true,
                            (RF::Close, BodyMode::CloseDelimited) => true,
                            (RF::Length(_), BodyMode::LengthDelimited(_)) => true,
                            _ => false,
                        };
                        ensure!(ok, "C09.accessor", "body_mode() = {:?} for framing {:?}", bm, plan.truth);
                        mark!(2);
                    }
                    _ => {
                        let premature = !model_ready;
                        if premature && !ctx.chance(1, 12) {
                            st = FlowSt::RecvBody(f);
                            continue;
                        }
                        if plan.truth == RF::Close && consumed < body_end && ctx.chance(7, 8) {
                            st = FlowSt::RecvBody(f);
                            continue;
                        }
                        match lib("Flow<RecvBody>::proceed", || f.proceed()) {
                            None => {
                                ensure!(premature, "C09.readiness", "RecvBody.proceed() returned None although the body is complete");
                                ctx.count("p:premature_proceed");
                                ctx.nontrivial = true;
                                return Ok(());
                            }
                            Some(n) => {
                                ensure!(!premature, "C09.readiness", "RecvBody.proceed() advanced although the body is incomplete");
                                let next = from_recv_body(n);
                                ctx.ev(|| format!("RecvBody.proceed() -> {}", next.name()));
                                if next.name() != plan.expect_terminal() {
                                    fail!("C09.wrong_successor", "RecvBody", "after the body of a {}: {} but the graph prescribes {}", plan.head.status, next.name(), plan.expect_terminal());
                                }
                                if plan.truth != RF::Close {
                                    ensure!(resp_body == plan.payload, "C09.wrong_body", "body delivered differs from the payload");
                                }
                                ctx.cell(64 + 5 * 8 + next.ord() as u32);
                                st = next;
                                called = 0;
                                continue;
                            }
                        }
                    }
                }
                st = FlowSt::RecvBody(f);
            }
            // ================================================================ Redirect
            FlowSt::Redirect(mut f) => {
                match choice {
                    0 => {
                        let s = lib("Flow<Redirect>::status", || f.status().as_u16());
                        ensure!(s == plan.head.status, "C09.accessor", "Redirect.status() = {} != {}", s, plan.head.status);
                        mark!(0);
                    }
                    1 => {
                        let mc = lib("Flow<Redirect>::must_close_connection", || f.must_close_connection());
                        let r = lib("Flow<Redirect>::close_reason", || f.close_reason());
                        ensure!(mc == r.is_some(), "C09.accessor", "must_close {} vs reason {:?}", mc, r);
                        mark!(1);
                    }
                    2 | 3 | 4 => {
                        let pol = if ctx.flip() { RedirectAuthHeaders::Never } else { RedirectAuthHeaders::SameHost };
                        let has_loc = !plan.head.get_all("location").is_empty();
                        let site = if produced_new_flow || asked_new_flow { "repeat_Flow<Redirect>::as_new_flow" } else { "Flow<Redirect>::as_new_flow" };
                        let r = lib(site, || f.as_new_flow(pol));
                        ctx.ev(|| format!("Redirect.as_new_flow({:?}) -> {}", pol, match &r { Ok(Some(_)) => "Ok(Some(flow))".to_string(), Ok(None) => "Ok(None)".to_string(), Err(e) => format!("Err({})", err_name(e)) }));
                        if produced_new_flow || asked_new_flow {
                            ctx.count("p:repeat_as_new_flow");
                            // only "does not panic" is demanded of a repeated call, whatever the first answered
                        } else {
                            asked_new_flow = true;
                            let cur_method = cfg.method.as_str();
                            match r {
                                Ok(Some(nf)) => {
                                    ensure!(has_loc, "C09.redirect_without_location", "as_new_flow produced a flow without a Location header");
                                    let want = ref_redirect_method(cur_method, plan.head.status);
                                    ensure!(want.is_some(), "C09.wrong_successor", "as_new_flow followed a {} for {}", plan.head.status, cur_method);
                                    produced_new_flow = true;
                                    if !followed && ctx.flip() {
                                        // use the new flow: walk it through Prepare and SendRequest
                                        followed = true;
                                        let m = want.unwrap();
                                        new_flow_cfg = Some((m.clone(), crate::refs::method_needs_body(&m)));
                                        wire.clear();
                                        head_done = false;
                                        extra_left = gen_plain_headers(ctx, 2);
                                        ctx.count("p:followed_redirect");
                                        ctx.cell(64 + 6 * 8 + 0);
                                        st = FlowSt::Prepare(nf);
                                        called = 0;
                                        continue;
                                    }
                                }
                                Ok(None) => {
                                    ensure!(ref_redirect_method(cur_method, plan.head.status).is_none() && has_loc, "C09.wrong_successor", "as_new_flow returned None for {} {}", cur_method, plan.head.status);
                                }
                                Err(_) => {
                                    ensure!(!has_loc, "C09.unexpected_error", "as_new_flow failed although a Location header is present");
                                }
                            }
                        }
                        mark!(2);
                    }
                    _ => {
                        if (called & 0b111) != 0b111 && ctx.chance(3, 4) {
                            st = FlowSt::Redirect(f);
                            continue;
                        }
                        let c = lib("Flow<Redirect>::proceed", || f.proceed());
                        ctx.ev(|| "Redirect.proceed() -> Cleanup".to_string());
                        ctx.cell(64 + 6 * 8 + 7);
                        st = FlowSt::Cleanup(c);
                        called = 0;
                        continue;
                    }
                }
                st = FlowSt::Redirect(f);
            }
            // ================================================================ Cleanup
            FlowSt::Cleanup(f) => {
                let mc = lib("Flow<Cleanup>::must_close_connection", || f.must_close_connection());
                let r = lib("Flow<Cleanup>::close_reason", || f.close_reason());
                ensure!(mc == r.is_some(), "C09.accessor", "must_close {} vs reason {:?}", mc, r);
                ctx.count("p:reached_cleanup");
                ctx.nontrivial = true;
                return Ok(());
            }
            FlowSt::Gone => break,
        }
    }
    let _ = ST_NAMES;
    ctx.nontrivial = calls >= 4;
    Ok(())
}
