//! Scenario family `sendbody`: C03 (chunked request body), C04 (Content-Length request body),
//! C18 (advertised maximum input), C19 (progress / bounded termination).
//!
//! Nondeterminism explored: the sequence of (input length, output buffer length) pairs that a
//! body producer and a socket send-buffer impose on the caller loop, finishing writes anywhere,
//! repeated, and writes after the end.

use crate::ctx::{set_observed, Ctx, R};
use crate::drive::{body_bytes, err_name, hex_len, reach_sender, reach_sender_ex, SendFraming, Sender};
use crate::refs::dechunk_strict;
use crate::{ensure, fail};

fn bucket(n: usize) -> u64 {
    if n < 16 {
        n as u64
    } else {
        16 + (usize::BITS - n.leading_zeros()) as u64
    }
}

const CHUNK: usize = 10 * 1024;

fn draw_in_len(ctx: &mut Ctx) -> usize {
    match ctx.draw(7) {
        0 => ctx.range(1, 8),
        1 => ctx.range(1, 64),
        2 => ctx.range(CHUNK - 8, CHUNK + 8),
        3 => ctx.range(1, 25_000),
        4 => ctx.range(65, 1000),
        5 => *ctx.pick(&[15usize, 16, 17, 255, 256, 257, 4095, 4096, 4097]),
        _ => ctx.range(1, 3),
    }
}

fn draw_out_len(ctx: &mut Ctx, in_len: usize) -> usize {
    let one_chunk = in_len.min(CHUNK);
    let fit = one_chunk + hex_len(one_chunk.max(1)) + 4;
    match ctx.draw(9) {
        0 => ctx.range(0, 12),
        1 => fit,
        2 => (fit + ctx.range(0, 7)).saturating_sub(1),
        3 => 3 * (CHUNK + 8) + ctx.range(0, 100),
        4 => ctx.range(13, 300),
        5 => CHUNK + 8 + ctx.range(0, 16) - 4,
        6 => 65_536,
        7 => ctx.range(5, 30),
        _ => {
            // leave exactly k bytes after n full chunks
            let n = ctx.range(1, 2);
            n * (CHUNK + 8) + ctx.range(0, 7)
        }
    }
}

fn setup_chunked(ctx: &mut Ctx) -> R<(Sender, &'static str)> {
    set_observed(false);
    let use_call = ctx.flip();
    let explicit = ctx.flip();
    let (method, despite) = if use_call {
        (*ctx.pick(&["POST", "PUT", "PATCH"]), false)
    } else {
        match ctx.draw(5) {
            0 => ("POST", false),
            1 => ("PUT", false),
            2 => ("PATCH", false),
            3 => (*ctx.pick(&["GET", "DELETE", "OPTIONS", "POST"]), true),
            _ => ("PUT", false),
        }
    };
    let framing = if explicit {
        if ctx.chance(1, 3) {
            SendFraming::ExplicitChunkedVariant(ctx.draw(12) as u8)
        } else {
            SendFraming::ExplicitChunked
        }
    } else {
        SendFraming::DefaultChunked
    };
    let via_added = explicit && !use_call && ctx.flip();
    let (s, head) = match reach_sender_ex(ctx, framing, use_call, method, despite, via_added) {
        Ok(v) => v,
        Err(e) => fail!("FOREIGN", "", "cannot reach the body state: {}", e),
    };
    if let Ok(Some(p)) = crate::refs::parse_request_head(&head) {
        if p.len != head.len() {
            set_observed(true);
            fail!("C03.terminator_outside_body_write", "", "a further head write after the head was complete put {} bytes on the wire: {:?}", head.len() - p.len, crate::json::show_bytes(&head[p.len..]));
        }
    }
    set_observed(true);
    ctx.sample(|| format!("chunked request body, api={}, framing header {}, method {}", if use_call { "Call" } else { "Flow" }, if explicit { "supplied" } else { "defaulted" }, method));
    Ok((s, if use_call { "call" } else { "flow" }))
}

// ============================================================================================ C03

pub fn c03(ctx: &mut Ctx) -> R {
    let (mut s, _api) = setup_chunked(ctx)?;
    let seed = ctx.draw(1 << 32);
    let mut consumed_total: u64 = 0;
    let mut finished_model = false;
    let mut ops = 0usize;
    let mut out = vec![0u8; 0];
    let mut data_ops = 0;
    let mut tight = false;

    while ops < 40 && (ops < 2 || ctx.chance(9, 10)) {
        ops += 1;
        // operation kind
        let kind = if finished_model {
            // after the end: empty or non-empty write
            if ctx.flip() { 2 } else { 3 }
        } else {
            match ctx.draw(6) {
                0 => 1, // finish
                _ => 0, // data write
            }
        };
        match kind {
            0 => {
                // ------------------------------------------------------------ data write
                let in_len = draw_in_len(ctx);
                let out_len = draw_out_len(ctx, in_len);
                let input = body_bytes(seed, consumed_total, in_len);
                if out.len() < out_len {
                    out.resize(out_len, 0);
                }
                for b in out[..out_len].iter_mut() {
                    *b = 0xEE;
                }
                let r = s.write(ctx, &input, &mut out[..out_len]);
                ctx.ev(|| format!("write(in={}, out={}) -> {:?}", in_len, out_len, r.as_ref().map_err(err_name)));
                let (c, p) = match r {
                    Ok(v) => v,
                    Err(e) => fail!("C03.unexpected_error", "", "data write(in={}, out={}) before the end failed: {}", in_len, out_len, e),
                };
                ctx.sig3(0, bucket(in_len) * 64 + bucket(out_len), (c > 0) as u64 * 2 + (c == in_len) as u64);
                ensure!(c <= in_len, "C03.consumed_gt_input", "consumed {} > input {}", c, in_len);
                ensure!(p <= out_len, "C03.produced_gt_output", "produced {} > output space {}", p, out_len);
                let d = match dechunk_strict(&out[..p]) {
                    Ok(d) => d,
                    Err(e) => fail!("C03.not_chunked", "", "output of write(in={}, out={}) is not a chunk sequence: {} [{}]", in_len, out_len, e, crate::json::show_bytes(&out[..p.min(64)])),
                };
                if d.terminators > 0 {
                    fail!("C03.premature_terminator", "", "write(in={}, out={}) with non-empty input emitted the terminating chunk (consumed {}, produced {})", in_len, out_len, c, p);
                }
                ensure!(d.on_boundary, "C03.partial_chunk", "output of write(in={}, out={}) ends inside a chunk (produced {})", in_len, out_len, p);
                ensure!(d.data.len() == c, "C03.data_len_mismatch", "write(in={}, out={}) reports {} consumed but chunks carry {} bytes", in_len, out_len, c, d.data.len());
                ensure!(d.data[..] == input[..c], "C03.data_mismatch", "chunk data differs from the consumed input (in={}, out={})", in_len, out_len);
                consumed_total += c as u64;
                if c > 0 {
                    data_ops += 1;
                }
                if d.chunks > 1 {
                    ctx.count("p:multi_chunk_write");
                }
                if c == 0 {
                    ctx.count("p:zero_progress_write");
                }
                if p > 0 && out_len - p == 5 {
                    ctx.count("p:space_after_chunk_eq5");
                    tight = true;
                }
                if out_len <= 12 {
                    ctx.count("f:backpressure");
                    tight = true;
                }
                if s.finished() {
                    fail!("C03.finished_without_terminator", "", "body reported finished after a data write (in={}, out={})", in_len, out_len);
                }
            }
            1 => {
                // ------------------------------------------------------------ finishing write
                let out_len = match ctx.draw(4) {
                    0 => ctx.range(0, 4),
                    1 => 5,
                    2 => ctx.range(6, 12),
                    _ => 1024,
                };
                if out.len() < out_len {
                    out.resize(out_len, 0);
                }
                let r = s.write(ctx, &[], &mut out[..out_len]);
                ctx.ev(|| format!("finish(out={}) -> {:?}", out_len, r.as_ref().map_err(err_name)));
                let (c, p) = match r {
                    Ok(v) => v,
                    Err(e) => fail!("C03.unexpected_error", "finish", "finishing write(out={}) failed: {}", out_len, e),
                };
                ctx.sig3(1, bucket(out_len), p as u64);
                ensure!(c == 0, "C03.consumed_gt_input", "finishing write consumed {}", c);
                ensure!(p <= out_len, "C03.produced_gt_output", "produced {} > output space {}", p, out_len);
                ctx.count("f:body_dribble_finish");
                if out_len < 5 {
                    ctx.count("p:finish_lt5_space");
                    tight = true;
                    ensure!(p == 0, "C03.partial_terminator", "finishing write into {} bytes emitted {} bytes", out_len, p);
                    if s.finished() {
                        fail!("C03.lost_terminator", "", "finishing write into {} bytes emitted nothing but the body is reported finished", out_len);
                    }
                } else {
                    if p == 0 {
                        // allowed only if it stays unfinished (no claim of completion)
                        if s.finished() {
                            fail!("C03.lost_terminator", "", "finishing write(out={}) emitted nothing but the body is reported finished", out_len);
                        }
                    } else {
                        ensure!(&out[..p] == b"0\r\n\r\n", "C03.bad_terminator", "finishing write emitted {:?}", crate::json::show_bytes(&out[..p]));
                        finished_model = true;
                        if !s.finished() {
                            fail!("C03.terminator_not_finished", "", "terminator completely emitted but the body is not reported finished");
                        }
                    }
                }
            }
            2 => {
                // ------------------------------------------------------------ empty write after the end
                let out_len = *ctx.pick(&[0usize, 4, 5, 64]);
                if out.len() < out_len {
                    out.resize(out_len, 0);
                }
                let r = s.write(ctx, &[], &mut out[..out_len]);
                ctx.ev(|| format!("finish-again(out={}) -> {:?}", out_len, r.as_ref().map_err(err_name)));
                ctx.count("p:double_finish");
                ctx.count("f:caller_repeated_finish");
                ctx.sig3(2, bucket(out_len), 0);
                match r {
                    Ok((c, p)) => {
                        if p != 0 {
                            fail!("C03.duplicate_terminator", "", "a further empty write after the end emitted {} bytes: {:?}", p, crate::json::show_bytes(&out[..p]));
                        }
                        ensure!(c == 0, "C03.consumed_gt_input", "consumed {} of empty input", c);
                    }
                    Err(_) => {} // refusing is fine: "emits nothing"
                }
                ensure!(s.finished(), "C03.finished_reverted", "body no longer reported finished after a further empty write");
            }
            _ => {
                // ------------------------------------------------------------ non-empty write after the end
                let in_len = ctx.range(1, 20);
                let out_len = *ctx.pick(&[0usize, 6, 64, 20_000]);
                let input = body_bytes(seed, consumed_total, in_len);
                if out.len() < out_len {
                    out.resize(out_len, 0);
                }
                for b in out[..out_len].iter_mut() {
                    *b = 0xEE;
                }
                let r = s.write(ctx, &input, &mut out[..out_len]);
                ctx.ev(|| format!("write-after-end(in={}, out={}) -> {:?}", in_len, out_len, r.as_ref().map_err(err_name)));
                ctx.count("p:write_after_finish");
                ctx.count("f:caller_write_after_end");
                ctx.sig3(3, bucket(out_len), r.is_ok() as u64);
                match r {
                    Ok((c, p)) => fail!("C03.write_after_finish_accepted", "", "non-empty write after the terminator was accepted: consumed {}, produced {}", c, p),
                    Err(_) => {
                    }
                }
                ensure!(s.finished(), "C03.finished_reverted", "body no longer reported finished after a refused write");
            }
        }
    }
    ctx.nontrivial = ops >= 2 && (data_ops > 0 || tight || finished_model);
    Ok(())
}

// ============================================================================================ C04

pub fn c04(ctx: &mut Ctx) -> R {
    set_observed(false);
    let n: u64 = match ctx.draw(10) {
        0 => 0,
        1 => ctx.range(1, 3) as u64,
        2 | 3 => ctx.range(0, 300) as u64,
        4 => ctx.range(10_239, 10_249) as u64,
        5 => 70_000,
        6 => ctx.range(301, 70_000) as u64,
        7 => (1u64 << 32) + 5,
        8 => u64::MAX,
        _ => ctx.range(4, 64) as u64,
    };
    let use_call = ctx.chance(1, 3);
    let method = *ctx.pick(&["POST", "PUT", "PATCH"]);
    // the length may be declared on the original request or by the caller in the prepare state,
    // also on a body-less method sent with a body despite the method
    let via_added = !use_call && ctx.chance(1, 3);
    let despite = !use_call && ctx.chance(1, 6);
    let method = if despite { *ctx.pick(&["GET", "DELETE", "OPTIONS"]) } else { method };
    let sized = if ctx.chance(1, 8) { SendFraming::SizedWithOtherCoding(n, ctx.draw(4) as u8) } else { SendFraming::Sized(n) };
    let (mut s, _head) = match reach_sender_ex(ctx, sized, use_call, method, despite, via_added) {
        Ok(v) => v,
        Err(e) => fail!("FOREIGN", "", "cannot reach the body state: {}", e),
    };
    set_observed(true);
    ctx.sample(|| format!("content-length {} request body, api={}, method {}{}{}", n, if use_call { "Call" } else { "Flow" }, method, if via_added { ", length declared via header()" } else { "" }, if despite { ", despite method" } else { "" }));
    let seed = ctx.draw(1 << 32);
    let mut remaining = n;
    let mut pos: u64 = 0; // body position = n - remaining
    let mut ops = 0;
    let mut out: Vec<u8> = Vec::new();
    let mut moved_ops = 0;
    let mut refused = 0;

    if s.finished() && n > 0 {
        fail!("C04.finished_early", "", "body reported finished before anything was sent (N={})", n);
    }

    while ops < 40 && (ops < 2 || ctx.chance(9, 10)) {
        ops += 1;
        let kind = ctx.draw(8);
        if kind <= 4 {
            // ---------------------------------------------------------------- write
            let in_len = match ctx.draw(6) {
                0 => 0,
                1 => ctx.range(1, 8),
                2 => ctx.range(1, 300),
                3 => {
                    // exactly the remainder, or one more (overshoot by one byte)
                    if remaining < 80_000 {
                        remaining as usize + ctx.range(0, 1)
                    } else {
                        ctx.range(1, 64)
                    }
                }
                4 => ctx.range(1, 20_000),
                _ => ctx.range(0, 2),
            };
            let out_len = match ctx.draw(6) {
                0 => 0,
                1 => ctx.range(1, 8),
                2 => in_len,
                3 => in_len + ctx.range(0, 2),
                4 => in_len.saturating_sub(ctx.range(1, 3)),
                _ => 32_768,
            };
            let input = body_bytes(seed, pos, in_len);
            if out.len() < out_len {
                out.resize(out_len, 0);
            }
            for b in out[..out_len].iter_mut() {
                *b = 0xEE;
            }
            let was_finished = s.finished();
            let r = s.write(ctx, &input, &mut out[..out_len]);
            ctx.ev(|| format!("write(in={}, out={}) remaining={} -> {:?}", in_len, out_len, remaining, r.as_ref().map_err(err_name)));
            let must_refuse = in_len as u64 > remaining; // covers non-empty writes at remaining 0
            ctx.sig3(0, bucket(in_len) * 64 + bucket(out_len), must_refuse as u64 * 4 + r.is_ok() as u64);
            if in_len == 0 || out_len == 0 {
                ctx.count("f:zero_length_io");
            }
            if must_refuse {
                refused += 1;
                if in_len as u64 == remaining + 1 {
                    ctx.count("p:overshoot_by_one");
                }
                if remaining == 0 {
                    ctx.count("p:write_after_end");
                }
                match r {
                    Ok((c, p)) => fail!("C04.overlong_write_accepted", "", "write of {} bytes with {} remaining (N={}) was accepted: consumed {}, produced {}", in_len, remaining, n, c, p),
                    Err(_) => {
                        ensure!(s.finished() == was_finished, "C04.refused_write_changed_state", "refused write changed the finished flag");
                    }
                }
            } else {
                let (c, p) = match r {
                    Ok(v) => v,
                    Err(e) => fail!("C04.unexpected_error", "", "permitted write(in={}, out={}) with {} remaining failed: {}", in_len, out_len, remaining, e),
                };
                let want = (in_len.min(out_len) as u64).min(remaining) as usize;
                ensure!(c == p, "C04.consumed_ne_produced", "consumed {} != produced {}", c, p);
                ensure!(c == want, "C04.wrong_amount", "write(in={}, out={}) with {} remaining moved {} bytes, expected {}", in_len, out_len, remaining, c, want);
                ensure!(out[..p] == input[..c], "C04.not_verbatim", "output differs from input");
                remaining -= c as u64;
                pos += c as u64;
                if c > 0 {
                    moved_ops += 1;
                }
                if remaining == 0 && !s.finished() {
                    fail!("C04.not_finished_at_end", "", "N={} bytes accounted for and the caller made a call, but the body is not reported finished", n);
                }
            }
        } else if kind <= 6 && s.is_flow() {
            // ---------------------------------------------------------------- direct write report
            let amount: u64 = match ctx.draw(5) {
                0 => 0,
                1 => ctx.range(1, 16) as u64,
                2 => remaining,
                3 => remaining.saturating_add(1),
                _ => ctx.range(1, 5000) as u64,
            };
            if amount > usize::MAX as u64 {
                continue;
            }
            let was_finished = s.finished();
            let r = s.direct(amount as usize).unwrap();
            ctx.ev(|| format!("consume_direct_write({}) remaining={} -> {:?}", amount, remaining, r.as_ref().map_err(err_name)));
            ctx.count("p:direct_write");
            ctx.sig3(1, bucket(amount.min(1 << 40) as usize), r.is_ok() as u64);
            if amount > remaining {
                refused += 1;
                match r {
                    Ok(()) => fail!("C04.overlong_direct_accepted", "", "direct write report of {} with {} remaining was accepted", amount, remaining),
                    Err(_) => {
                        ensure!(s.finished() == was_finished, "C04.refused_write_changed_state", "refused direct write changed the finished flag");
                    }
                }
            } else {
                if let Err(e) = r {
                    fail!("C04.unexpected_error", "direct", "permitted direct write report of {} with {} remaining failed: {}", amount, remaining, e);
                }
                remaining -= amount;
                pos += amount;
                if amount > 0 {
                    moved_ops += 1;
                }
                if remaining == 0 && !s.finished() {
                    fail!("C04.not_finished_at_end", "direct", "N={} bytes accounted for but the body is not reported finished", n);
                }
            }
        } else {
            // ---------------------------------------------------------------- read-only queries
            let f = s.finished();
            if let Some(ch) = s.is_chunked() {
                ensure!(!ch, "C04.is_chunked", "length-delimited body reports chunked");
            }
            if let Some(m) = s.max_input(100) {
                ensure!(m == 100, "C04.max_input", "calculate_max_input(100) = {} for a length-delimited body", m);
            }
            ensure!(s.finished() == f, "C04.query_changed_state", "queries changed the finished flag");
            ctx.count("f:caller_query_interleaved");
        }
        // invariant after every op
        if s.finished() && remaining > 0 {
            fail!("C04.finished_early", "", "body reported finished with {} of {} bytes still to send", remaining, n);
        }
    }
    // advancing out of the body stage succeeds iff the body is reported finished
    let fin = s.finished();
    let adv = s.advance();
    if adv != fin {
        fail!("C04.advance_disagrees", if adv { "advanced-unfinished" } else { "refused-finished" }, "body finished = {} ({} of {} bytes outstanding) but advancing to the response {}", fin, remaining, n, if adv { "succeeded" } else { "was refused" });
    }
    ctx.nontrivial = moved_ops >= 1 && ops >= 2 || refused > 0;
    Ok(())
}

// ============================================================================================ C18

pub const C18_BLOCKS: u64 = 483; // 0 ..= 483*64-1 = 30911 >= 3*10248+64

pub fn c18(ctx: &mut Ctx) -> R {
    set_observed(false);
    let chunked = ctx.sub == 0;
    let framing = if chunked {
        match ctx.index % 8 {
            0 | 1 | 2 | 3 => SendFraming::DefaultChunked,
            4 | 5 => SendFraming::ExplicitChunked,
            _ => SendFraming::ExplicitChunkedVariant((ctx.index / 8 % 12) as u8),
        }
    } else if ctx.index % 6 == 1 {
        // a body shorter than most buffers: the advertised size is n itself all the same
        SendFraming::Sized(5000)
    } else {
        SendFraming::Sized(1 << 50)
    };
    let small_sized = framing == SendFraming::Sized(5000);
    let (mut s, _) = match reach_sender(ctx, framing, false, "POST", false) {
        Ok(v) => v,
        Err(e) => fail!("FOREIGN", "", "cannot reach the body state: {}", e),
    };
    set_observed(true);
    let k = ctx.index / 2; // two sub-batches interleaved
    let (lo, hi): (usize, usize) = if k < C18_BLOCKS {
        ((k * 64) as usize, (k * 64 + 63) as usize)
    } else {
        // beyond the swept range: a random block of 4 up to 2^21
        let base = ctx.range(30_912, 1 << 21);
        (base, base + 3)
    };
    ctx.sample(|| format!("{} body, buffer sizes n = {}..={}", if chunked { "chunked" } else { "length-delimited" }, lo, hi));
    let seed = ctx.draw(1 << 16);
    let input = body_bytes(seed, 0, hi + 1);
    let mut out = vec![0u8; hi + 1];
    let mut prev: Option<usize> = if lo > 0 { s.max_input(lo - 1) } else { None };
    for n in lo..=hi {
        let m = s.max_input(n).unwrap();
        ensure!(m <= n, "C18.max_gt_n", "calculate_max_input({}) = {} exceeds the buffer", n, m);
        if !chunked {
            ensure!(m == n, "C18.sized_not_n", "calculate_max_input({}) = {} for a length-delimited body", n, m);
        }
        if let Some(p) = prev {
            ensure!(m >= p, "C18.not_monotone", "calculate_max_input({}) = {} < calculate_max_input({}) = {}", n, m, n - 1, p);
        }
        prev = Some(m);
        if m > 0 && !small_sized {
            let r = s.write(ctx, &input[..m], &mut out[..n]);
            match r {
                Ok((c, p)) => {
                    ensure!(p <= n, "C18.produced_gt_output", "produced {} > {}", p, n);
                    if c != m {
                        fail!("C18.max_input_not_consumed", "", "an input of the advertised maximum {} for a {}-byte buffer was consumed only to {} bytes", m, n, c);
                    }
                }
                Err(e) => fail!("C18.max_input_refused", "", "write of the advertised maximum {} into {} bytes failed: {}", m, n, e),
            }
        }
        if n < (C18_BLOCKS * 64) as usize {
            ctx.cell((n as u32) * 2 + chunked as u32);
        }
    }
    ctx.sig3(chunked as u64, lo as u64, hi as u64);
    ctx.nontrivial = true;
    Ok(())
}

// ============================================================================================ C19

/// (input, output) pairs enumerated by the run index: every output size 6..=11000 x 8 input classes.
pub const C19_ENUM: u64 = 10_995 * 8;

pub fn c19(ctx: &mut Ctx) -> R {
    set_observed(false);
    let enumerated = ctx.sub == 3;
    let chunked = ctx.sub != 2;
    let use_call = ctx.chance(1, 3);
    let framing = if chunked { SendFraming::DefaultChunked } else { SendFraming::Sized(1 << 50) };
    // also a body-less method sent with a body despite the method (no framing header: chunked)
    let despite = !use_call && ctx.chance(1, 6);
    let (mut s, _) = match reach_sender(ctx, framing, use_call, if despite { "GET" } else { "POST" }, despite) {
        Ok(v) => v,
        Err(e) => fail!("FOREIGN", "", "cannot reach the body state: {}", e),
    };
    // a second sender for the "only the advertised maximum" comparison (fresh state)
    let (mut s2, _) = match reach_sender(ctx, framing, false, "POST", false) {
        Ok(v) => v,
        Err(e) => fail!("FOREIGN", "", "cannot reach the body state: {}", e),
    };
    set_observed(true);
    let seed = ctx.draw(1 << 16);
    let min_out = if chunked { 6 } else { 1 };
    let out_len = match ctx.draw(6) {
        0 => ctx.range(min_out, 40),
        1 => ctx.range(min_out, 11_000),
        2 => {
            let k = ctx.range(1, 3);
            (k * (CHUNK + 8) + ctx.range(0, 20)).saturating_sub(10).max(min_out)
        }
        3 => ctx.range(16, 30) + *ctx.pick(&[0usize, 240, 4080]),
        4 => ctx.range(min_out, 300),
        _ => ctx.range(4090, 4120),
    };
    let k = (ctx.index / 4) % C19_ENUM;
    let out_len = if enumerated { 6 + (k % 10_995) as usize } else { out_len };
    let mut out = vec![0u8; out_len];
    if ctx.sub == 0 || ctx.sub == 2 || enumerated {
        // ---------------------------------------------------------------- (a) pairs
        let adv = s2.max_input(out_len).unwrap();
        let in_len = if enumerated {
            ctx.count("p:enumerated_pair");
            match k / 10_995 {
                0 => 1,
                1 => adv.max(1),
                2 => adv + 1,
                3 => adv.saturating_sub(1).max(1),
                4 => out_len,
                5 => out_len + 1,
                6 => out_len.saturating_sub(5).max(1),
                _ => 2 * CHUNK + 17,
            }
        } else {
            0
        };
        let in_len = if enumerated { in_len } else { match ctx.draw(5) {
            0 => ctx.range(1, 20),
            1 => ctx.range(1, out_len + 10),
            2 => ctx.range(1, 3 * CHUNK),
            3 => out_len.saturating_sub(ctx.range(0, 8)).max(1),
            _ => out_len + ctx.range(0, 40),
        } };
        ctx.sample(|| format!("{} body pair: input {} bytes, output buffer {} bytes, api={}", if chunked { "chunked" } else { "length-delimited" }, in_len, out_len, if use_call { "Call" } else { "Flow" }));
        let input = body_bytes(seed, 0, in_len + 64);
        let (c, p) = match s.write(ctx, &input[..in_len], &mut out) {
            Ok(v) => v,
            Err(e) => fail!("C19.unexpected_error", "", "write(in={}, out={}) failed: {}", in_len, out_len, e),
        };
        ctx.ev(|| format!("write(in={}, out={}) -> ({}, {})", in_len, out_len, c, p));
        ctx.sig3(bucket(in_len), bucket(out_len), (c == in_len) as u64);
        if c == 0 {
            fail!("C19.no_progress", "", "write(in={}, out={}) consumed nothing although a {}-byte buffer has room for the smallest {}", in_len, out_len, out_len, if chunked { "chunk" } else { "write" });
        }
        // never less than with only the advertised maximum offered
        let m = s2.max_input(out_len).unwrap();
        let offer = in_len.min(m);
        if offer > 0 {
            let (c2, _) = match s2.write(ctx, &input[..offer], &mut out) {
                Ok(v) => v,
                Err(e) => fail!("C19.unexpected_error", "max", "write(in={}, out={}) failed: {}", offer, out_len, e),
            };
            if c < c2 {
                fail!("C19.less_than_max_offer", "", "write(in={}, out={}) consumed {} but offering only min(in, advertised max {}) = {} consumes {}", in_len, out_len, c, m, offer, c2);
            }
        }
        // offering more never reduces progress
        let more = in_len + ctx.range(1, 64);
        let input2 = body_bytes(seed, 0, more);
        let (c3, _) = match s2.write(ctx, &input2, &mut out) {
            Ok(v) => v,
            Err(e) => fail!("C19.unexpected_error", "more", "write(in={}, out={}) failed: {}", more, out_len, e),
        };
        if c3 < c {
            fail!("C19.more_input_less_progress", "", "write(in={}, out={}) consumed {} but write(in={}, out={}) only {}", in_len, out_len, c, more, out_len, c3);
        }
        if in_len > out_len {
            ctx.count("f:backpressure");
        }
        ctx.nontrivial = true;
    } else {
        // ---------------------------------------------------------------- (b) whole-body loop with a fixed buffer
        let body_len = match ctx.draw(4) {
            0 => ctx.range(1, 200),
            1 => ctx.range(1, 30_000),
            2 => ctx.range(CHUNK - 4, CHUNK + 4),
            _ => ctx.range(1, 2000),
        };
        ctx.sample(|| format!("chunked whole-body loop: body {} bytes, fixed output buffer {} bytes, api={}", body_len, out_len, if use_call { "Call" } else { "Flow" }));
        let body = body_bytes(seed, 0, body_len);
        let m = s2.max_input(out_len).unwrap().max(1);
        let bound = (body_len + m - 1) / m + 2;
        let mut off = 0usize;
        let mut calls = 0usize;
        let piece_mode = ctx.draw(3);
        while off < body_len {
            calls += 1;
            if calls > bound * 4 + 8 {
                fail!("C19.loop_not_terminating", "", "sending {} bytes through a fixed {}-byte buffer did not finish within {} calls (at offset {})", body_len, out_len, calls, off);
            }
            let offer = match piece_mode {
                0 => body_len - off,
                1 => (body_len - off).min(m),
                _ => (body_len - off).min(ctx.range(1, out_len + 8)),
            };
            let (c, p) = match s.write(ctx, &body[off..off + offer], &mut out) {
                Ok(v) => v,
                Err(e) => fail!("C19.unexpected_error", "loop", "write(in={}, out={}) failed: {}", offer, out_len, e),
            };
            ctx.ev(|| format!("loop write(in={}, out={}) -> ({}, {})", offer, out_len, c, p));
            if c == 0 {
                fail!("C19.no_progress", "loop", "loop write(in={}, out={}) consumed nothing at body offset {}", offer, out_len, off);
            }
            off += c;
        }
        if piece_mode == 0 && calls > bound {
            fail!("C19.loop_too_slow", "", "sending {} bytes through a fixed {}-byte buffer (advertised max {}) took {} calls, bound {}", body_len, out_len, m, calls, bound);
        }
        ctx.sig3(bucket(body_len), bucket(out_len), calls as u64);
        ctx.count("f:backpressure");
        ctx.nontrivial = calls >= 2;
    }
    Ok(())
}
