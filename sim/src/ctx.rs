//! Per-run context: the choice tape, the trace, counters, and violation plumbing.

use std::cell::{Cell, RefCell};
use std::sync::OnceLock;

use crate::rng::{hash_step, Tape};

#[derive(Clone, Debug)]
pub struct Violation {
    /// e.g. "C03.premature_terminator"
    pub code: String,
    /// Narrow shape of the failing input / call site; used to match known findings.
    pub key: String,
    pub msg: String,
}

pub type R<T = ()> = Result<T, Violation>;

#[derive(Clone, Debug)]
pub struct KnownFinding {
    pub property: String,
    pub code: String,
    pub key: String,
    pub status: String, // "known" | "fixed"
    pub what: String,
}

static KNOWN: OnceLock<Vec<KnownFinding>> = OnceLock::new();

pub fn set_known(v: Vec<KnownFinding>) {
    let _ = KNOWN.set(v);
}

pub fn known() -> &'static [KnownFinding] {
    KNOWN.get().map(|v| v.as_slice()).unwrap_or(&[])
}

pub fn is_known(code: &str, key: &str) -> Option<&'static KnownFinding> {
    known()
        .iter()
        .find(|k| k.status == "known" && k.code == code && k.key == key)
}

pub struct Ctx {
    pub tape: Tape,
    pub tracing: bool,
    pub trace: Vec<String>,
    /// hash of the abstract trace (state, call, size bucket, result kind)
    pub sig: u64,
    pub counts: Vec<(&'static str, u64)>,
    pub cells: Vec<u32>,
    pub sim_ns: u64,
    pub nontrivial: bool,
    pub want_sample: bool,
    pub sample: String,
    pub index: u64,
    pub sub: u32,
    pub tier_thorough: bool,
    /// known findings hit by this run (code, key)
    pub known_hits: Vec<(String, String)>,
    pub steps: u64,
}

impl Ctx {
    pub fn new(tape: Tape, index: u64, sub: u32, thorough: bool) -> Ctx {
        Ctx {
            tape,
            tracing: false,
            trace: Vec::new(),
            sig: 0xcbf2_9ce4_8422_2325,
            counts: Vec::with_capacity(16),
            cells: Vec::new(),
            sim_ns: 0,
            nontrivial: false,
            want_sample: false,
            sample: String::new(),
            index,
            sub,
            tier_thorough: thorough,
            known_hits: Vec::new(),
            steps: 0,
        }
    }

    #[inline]
    pub fn draw(&mut self, bound: u64) -> u64 {
        self.tape.draw(bound)
    }

    #[inline]
    pub fn draw_usize(&mut self, bound: usize) -> usize {
        self.tape.draw(bound as u64) as usize
    }

    /// true with probability num/den. High draws mean true, so that a zeroed tape takes the
    /// common branch of every rare choice and leaves every "one more?" loop at once
    /// (small-is-simple, which is what the tape minimiser relies on).
    #[inline]
    pub fn chance(&mut self, num: u64, den: u64) -> bool {
        self.tape.draw(den) + num >= den
    }

    #[inline]
    pub fn flip(&mut self) -> bool {
        self.tape.draw(2) == 1
    }

    /// inclusive range
    #[inline]
    pub fn range(&mut self, lo: usize, hi: usize) -> usize {
        debug_assert!(hi >= lo);
        lo + self.tape.draw((hi - lo + 1) as u64) as usize
    }

    pub fn pick<'a, T>(&mut self, items: &'a [T]) -> &'a T {
        let i = self.draw_usize(items.len());
        &items[i]
    }

    #[inline]
    pub fn count(&mut self, name: &'static str) {
        self.count_n(name, 1);
    }

    pub fn count_n(&mut self, name: &'static str, n: u64) {
        for c in self.counts.iter_mut() {
            if std::ptr::eq(c.0, name) || c.0 == name {
                c.1 += n;
                return;
            }
        }
        self.counts.push((name, n));
    }

    #[inline]
    pub fn cell(&mut self, id: u32) {
        self.cells.push(id);
    }

    /// Abstract-trace signature step (never draws, never reads a clock).
    #[inline]
    pub fn sig(&mut self, v: u64) {
        self.sig = hash_step(self.sig, v);
    }

    #[inline]
    pub fn sig3(&mut self, a: u64, b: u64, c: u64) {
        self.sig = hash_step(self.sig, a.wrapping_mul(1_000_003) ^ b.wrapping_mul(7919) ^ c);
    }

    #[inline]
    pub fn ev(&mut self, f: impl FnOnce() -> String) {
        if self.tracing {
            if self.trace.len() < 4000 {
                let s = f();
                self.trace.push(s);
            }
        }
    }

    pub fn sample(&mut self, f: impl FnOnce() -> String) {
        if self.want_sample || self.tracing {
            if !self.sample.is_empty() {
                self.sample.push_str(" | ");
            }
            let s = f();
            self.sample.push_str(&s);
        }
    }

    /// Report an oracle failure. A failure that matches a listed known finding is recorded
    /// and `Ok(true)` is returned (the scenario decides how to go on); anything else is an
    /// `Err(Violation)` that ends the run.
    pub fn report(&mut self, code: &str, key: &str, msg: impl FnOnce() -> String) -> R<bool> {
        if is_known(code, key).is_some() {
            self.known_hits.push((code.to_string(), key.to_string()));
            return Ok(true);
        }
        Err(Violation {
            code: code.to_string(),
            key: key.to_string(),
            msg: msg(),
        })
    }
}

/// Shorthand: fail the run with a violation.
#[macro_export]
macro_rules! fail {
    ($code:expr, $key:expr, $($arg:tt)*) => {
        return Err($crate::ctx::Violation { code: $code.to_string(), key: $key.to_string(), msg: format!($($arg)*) })
    };
}

/// Shorthand: check a condition, fail with a violation otherwise.
#[macro_export]
macro_rules! ensure {
    ($cond:expr, $code:expr, $($arg:tt)*) => {
        if !($cond) {
            return Err($crate::ctx::Violation { code: $code.to_string(), key: String::new(), msg: format!($($arg)*) });
        }
    };
}

// ------------------------------------------------------------------------------ panic capture

thread_local! {
    /// Name of the library call in progress ("" = none: the harness itself is running).
    pub static SITE: Cell<&'static str> = const { Cell::new("") };
    /// Whether the call in progress is one the checked property observes.
    pub static OBSERVED: Cell<bool> = const { Cell::new(true) };
    pub static LAST_PANIC: RefCell<Option<PanicInfo>> = const { RefCell::new(None) };
    /// Wall-clock start (ms since process start) of the library call in progress; 0 = none.
    pub static CALL_START_MS: Cell<u64> = const { Cell::new(0) };
}

#[derive(Clone, Debug)]
pub struct PanicInfo {
    pub site: &'static str,
    pub observed: bool,
    pub file: String,
    pub line: u32,
    pub msg: String,
}

pub fn install_panic_hook() {
    std::panic::set_hook(Box::new(|info| {
        let (file, line) = info
            .location()
            .map(|l| (l.file().to_string(), l.line()))
            .unwrap_or_default();
        let msg = if let Some(s) = info.payload().downcast_ref::<&str>() {
            s.to_string()
        } else if let Some(s) = info.payload().downcast_ref::<String>() {
            s.clone()
        } else {
            "<non-string panic>".to_string()
        };
        let pi = PanicInfo {
            site: SITE.with(|s| s.get()),
            observed: OBSERVED.with(|s| s.get()),
            file,
            line,
            msg,
        };
        LAST_PANIC.with(|p| *p.borrow_mut() = Some(pi));
    }));
}

/// Run a library call with its site name registered, so that a panic inside it can be
/// attributed. The call itself is not wrapped in catch_unwind (the whole run is).
#[inline]
pub fn lib<T>(site: &'static str, f: impl FnOnce() -> T) -> T {
    let prev = SITE.with(|s| s.replace(site));
    let r = f();
    SITE.with(|s| s.set(prev));
    r
}

/// Mark the following calls as setup (a panic there is a foreign abort, not a violation of
/// the property being checked).
pub fn set_observed(on: bool) {
    OBSERVED.with(|s| s.set(on));
}
