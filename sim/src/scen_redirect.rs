//! Scenario family `redirect-world`: C13 (no credential / stale framing leak), C14 (RFC 3986
//! target resolution), C15 (method rewriting table), C16 (caller-added headers reach the wire),
//! and C02 at redirect depth 1..3.
//!
//! A world of simulated origins {a,b,c}.test x {http,https} x ports. A chain of 1..4 redirect
//! hops is played as a history: every hop is a real exchange through the discrete-event world
//! against the origin that the current flow's URI names, the head is read *at the receiving
//! origin* with the strict reference parser, the origin answers with a drawn 3xx + Location,
//! and the caller follows with a drawn policy, adding fresh headers (its cookie jar) at every
//! Prepare.

use ureq_proto::client::flow::state as fs;
use ureq_proto::client::flow::{Flow, RedirectAuthHeaders};

use crate::ctx::{lib, set_observed, Ctx, R};
use crate::drive::{body_bytes, Hdr};
use crate::gen::gen_arrival;
use crate::json::show_bytes;
use crate::refs::{method_needs_body, method_ok_for_version, parse_request_head, ref_redirect_method, resolve, same_uri, Framing as RF, ParsedReq, RefUri, METHODS};
use crate::reqgen::{classify, compare_head, expected_head, gen_plain_headers, gen_uri, grouped, Framing, ReqCfg, Validity, HOSTS};
use crate::scen_exchange::{build_resp, make_prepare, ClSpec, RespSpec};
use crate::world::{AwaitPolicy, Exchange, FixedStream, Policy, ServerPlan, Terminal};
use crate::{ensure, fail};

pub const C15_CELLS: u32 = 9 * 100 * 2 * 2;

fn uri_of(u: &ureq_proto::http::Uri) -> Option<RefUri> {
    Some(RefUri {
        scheme: u.scheme_str()?.to_string(),
        host: u.host()?.to_string(),
        port: u.port_u16(),
        path: u.path().to_string(),
        query: u.query().map(|q| q.to_string()),
    })
}

fn seg(ctx: &mut Ctx) -> &'static str {
    *ctx.pick(&["a", "b", "docs", "x-1", "v2", "index.html", "~u", "q_r", "0"])
}

fn rel_path(ctx: &mut Ctx, dots: bool) -> String {
    let n = ctx.range(1, 4);
    let mut parts: Vec<String> = Vec::new();
    for _ in 0..n {
        let p = if dots && ctx.chance(1, 3) { (*ctx.pick(&[".", ".."])).to_string() } else { seg(ctx).to_string() };
        parts.push(p);
    }
    let mut s = parts.join("/");
    if ctx.chance(1, 4) {
        s.push('/');
    }
    s
}

/// A Location value inside the RFC 3986 / WHATWG common grammar, plus which form it is.
fn gen_location(ctx: &mut Ctx, rich: bool, cur: &RefUri) -> (String, &'static str) {
    let host = *ctx.pick(&HOSTS);
    let port = match ctx.draw(5) {
        0 => ":8080",
        1 => ":80",
        2 => ":443",
        _ => "",
    };
    let q = match ctx.draw(if rich { 6 } else { 4 }) {
        0 => "?k=v",
        1 => "?a=1&b=2",
        4 => "?next=http://a.test/home",
        5 => "?u=https://c.test:8443/x?y#z",
        _ => "",
    };
    // userinfo is legal in an absolute or scheme-relative reference and is not part of the origin
    let ui = match ctx.draw(12) {
        0 => "u@",
        1 => "a.test:x@",
        2 => "b.test@",
        _ => "",
    };
    let frag = if rich && ctx.chance(1, 4) { "#frag" } else { "" };
    let forms = if rich { 9 } else { 5 };
    let (s, form) = match ctx.draw(forms) {
        0 => (format!("http://{}{}{}/{}{}", ui, host, port, rel_path(ctx, rich), q), "absolute-http"),
        1 => {
            if rich && ctx.chance(1, 10) {
                (format!("HTTPS://{}{}/{}{}", host.to_ascii_uppercase(), port, rel_path(ctx, false), q), "absolute-uppercase")
            } else {
                (format!("https://{}{}{}/{}{}", ui, host, port, rel_path(ctx, rich), q), "absolute-https")
            }
        }
        2 => (format!("//{}{}{}/{}{}", ui, host, port, rel_path(ctx, false), q), "scheme-relative"),
        3 => (format!("/{}{}", rel_path(ctx, rich), q), "path-absolute"),
        4 => (format!("{}{}", rel_path(ctx, rich), q), "path-relative"),
        5 => (format!("{}{}", *ctx.pick(&["./", "../", "../../", "./x", "../x/./y", "."]), q), "dot-relative"),
        6 => ((*ctx.pick(&["?only=query", "?"])).to_string(), "query-only"),
        7 => (String::new(), "empty"),
        _ => (format!("{}://{}", cur.scheme, cur.authority()), "authority-only"),
    };
    (format!("{}{}", s, frag), form)
}

fn must_error_location(ctx: &mut Ctx) -> Vec<u8> {
    match ctx.draw(5) {
        0 => vec![b'/', 0xff, 0xfe, b'x'],
        1 => b"http://[::1/x".to_vec(),
        2 => b"http://a.test:99999/".to_vec(),
        3 => b"http://a.test:port/".to_vec(),
        _ => vec![0x80, 0x81],
    }
}

fn garbage_location(ctx: &mut Ctx) -> Vec<u8> {
    let n = ctx.range(0, 24);
    let alphabet: &[u8] = b"/:?#[]@.%ah\\ \x7f~{}|^`<>\"";
    let mut v: Vec<u8> = (0..n).map(|_| if ctx.chance(1, 8) { 0x80 + ctx.draw(127) as u8 } else { *ctx.pick(alphabet) }).collect();
    v.retain(|c| *c != 0x7f);
    // a field value has no leading / trailing blanks
    while v.first() == Some(&b' ') {
        v.remove(0);
    }
    while v.last() == Some(&b' ') {
        v.pop();
    }
    v
}

struct Hop {
    method: String,
    uri: RefUri,
    added: Vec<Hdr>,
    suppressed: Vec<&'static str>,
    /// inherited headers that may or may not be carried over (Authorization where C13 allows it)
    optional: Vec<&'static str>,
    body: Vec<u8>,
}

fn field_has(p: &ParsedReq, name: &str, needle: &[u8]) -> bool {
    p.fields.iter().any(|(n, v)| n == name && crate::refs::find(v, needle).is_some())
}

pub fn c13(ctx: &mut Ctx) -> R {
    chain(ctx, "C13")
}
pub fn c14(ctx: &mut Ctx) -> R {
    chain(ctx, "C14")
}
pub fn c15(ctx: &mut Ctx) -> R {
    chain(ctx, "C15")
}
pub fn c16(ctx: &mut Ctx) -> R {
    chain(ctx, "C16")
}
pub fn c02_depth(ctx: &mut Ctx) -> R {
    chain(ctx, "C02")
}
/// C17 on a flow produced by following a redirect: the effective headers are the caller-added
/// ones plus the inherited ones that are not suppressed.
pub fn c17_depth(ctx: &mut Ctx) -> R {
    chain(ctx, "C17")
}

fn chain(ctx: &mut Ctx, prop: &'static str) -> R {
    set_observed(false);
    let rich = prop == "C14";
    // ---- the original request
    let tag = ctx.draw(1_000_000);
    let version: u8 = if ctx.chance(1, 6) { 10 } else { 11 };
    let (mut method, mut status0, mut policy_samehost, mut resp_body0) = (String::new(), 0u16, ctx.flip(), ctx.flip());
    if prop == "C15" {
        // the run index enumerates method x status x policy x response body
        let mut k = (ctx.index % C15_CELLS as u64) as u32;
        ctx.cell(k);
        method = METHODS[(k % 9) as usize].to_string();
        k /= 9;
        status0 = 300 + (k % 100) as u16;
        k /= 100;
        policy_samehost = k % 2 == 1;
        k /= 2;
        resp_body0 = k % 2 == 1;
    }
    let version = if prop == "C15" { if matches!(method.as_str(), "GET" | "HEAD" | "POST") && ctx.chance(1, 4) { 10 } else { 11 } } else { version };
    if method.is_empty() {
        method = loop {
            let m = *ctx.pick(&METHODS);
            if method_ok_for_version(m, version == 11) {
                break m.to_string();
            }
        };
    }
    let uri0 = gen_uri(ctx);
    let auth_secret = format!("Bearer S3CR3T-AUTH-{}", tag).into_bytes();
    let cookie_secret = format!("sid=S3CR3T-COOKIE-{}", tag).into_bytes();
    let cl_secret: u64 = 17 + tag % 60;
    let mut orig = gen_plain_headers(ctx, 6);
    orig.retain(|(n, _)| n != "host");
    // C14 only (no draw for the other properties): the original request names its host itself,
    // as C02's quantifier anticipates ("explicit or missing Host ... after 0..3 redirects")
    let explicit_host: Option<Vec<u8>> = if prop == "C14" && ctx.chance(1, 8) { Some(uri0.authority().into_bytes()) } else { None };
    if let Some(h) = &explicit_host {
        orig.insert(0, ("host".into(), h.clone()));
        ctx.count("p:original_request_with_explicit_host");
    }
    let with_auth = prop == "C13" || ctx.chance(2, 3);
    let with_cookie = prop == "C13" || ctx.chance(2, 3);
    if with_auth {
        crate::reqgen::insert_at(ctx, &mut orig, ("authorization".into(), auth_secret.clone()));
    }
    if with_cookie {
        crate::reqgen::insert_at(ctx, &mut orig, ("cookie".into(), cookie_secret.clone()));
        if ctx.chance(1, 3) {
            crate::reqgen::insert_at(ctx, &mut orig, ("Cookie".into(), format!("pref=S3CR3T-COOKIE-{}-b", tag).into_bytes()));
            if ctx.chance(1, 2) {
                // a third field of the same name, ahead of everything else
                orig.insert(0, ("cookie".into(), format!("t=S3CR3T-COOKIE-{}-c", tag).into_bytes()));
            }
        }
    }
    let needs = method_needs_body(&method);
    let mut framing = Framing::None;
    // a body-less method sent with a body despite the method carries a Content-Length too
    let despite0 = !needs && ctx.chance(1, if prop == "C13" { 3 } else { 8 });
    if (needs || despite0) && (prop == "C13" || ctx.chance(1, 2)) {
        crate::reqgen::insert_at(ctx, &mut orig, ("content-length".into(), cl_secret.to_string().into_bytes()));
        framing = Framing::Sized(cl_secret, false);
    }
    // C15 only: the original request may carry transfer-encoding: chunked itself. The redirect
    // inherits it, which makes the (body-less) redirected request one that C17 refuses; the
    // chain then ends after the method and state checks.
    let te_orig = prop == "C15" && needs && framing == Framing::None && ctx.chance(1, 6);
    if te_orig {
        crate::reqgen::insert_at(ctx, &mut orig, ("transfer-encoding".into(), b"chunked".to_vec()));
        framing = Framing::Chunked(false);
    }
    let policy = if policy_samehost { RedirectAuthHeaders::SameHost } else { RedirectAuthHeaders::Never };
    let n_hops = if prop == "C15" { ctx.range(1, 2) } else { ctx.range(1, 4) };
    let cfg0 = ReqCfg { method: method.clone(), version, uri: uri0.clone(), orig: orig.clone(), added: vec![], despite: despite0, framing: framing.clone(), expect: false };
    let mut flow: Flow<(), fs::Prepare> = match lib("Flow::new", || Flow::new(cfg0.build())) {
        Ok(f) => f,
        Err(e) => fail!("FOREIGN", "", "Flow::new: {}", e),
    };
    // the conversion may come before or after the caller's header additions
    let mut despite_pending = despite0;
    if despite_pending && ctx.flip() {
        lib("Flow<Prepare>::send_body_despite_method", || flow.send_body_despite_method());
        despite_pending = false;
    }
    if despite0 {
        ctx.count("p:despite_method_with_content_length");
    }
    let seed = ctx.draw(1 << 32);
    let mut cur = Hop { method: method.clone(), uri: uri0.clone(), added: vec![], suppressed: vec![], optional: vec![], body: if needs || despite0 { body_bytes(seed, 0, match framing { Framing::Sized(n, _) => n as usize, _ => ctx.range(0, 40) }) } else { vec![] } };
    let mut trail: Vec<String> = vec![format!("{} {}", method, uri0.render())];
    let mut depth = 0u32;

    loop {
        // ================================================================ Prepare: the caller's jar
        let n_added = if prop == "C16" || prop == "C02" {
            match ctx.draw(8) {
                0 => ctx.range(0, 60),
                1 => 0,
                _ => ctx.range(0, 6),
            }
        } else if ctx.chance(1, 3) {
            ctx.range(0, 3)
        } else {
            0
        };
        let mut added: Vec<Hdr> = Vec::new();
        for i in 0..n_added {
            let name = if prop == "C16" || prop == "C02" {
                match ctx.draw(10) {
                    0 => "cookie".to_string(),
                    1 => "authorization".to_string(),
                    2 => "connection".to_string(),
                    3 => "host".to_string(),
                    4 => "content-length".to_string(),
                    5 => "transfer-encoding".to_string(),
                    _ => crate::gen::gen_token_name(ctx).to_ascii_lowercase(),
                }
            } else if prop == "C13" && ctx.chance(1, 2) {
                // the caller's own credentials for the target (never the original secrets)
                (*ctx.pick(&["cookie", "authorization"])).to_string()
            } else {
                crate::gen::gen_token_name(ctx).to_ascii_lowercase()
            };
            let mut value: Vec<u8> = match name.as_str() {
                "host" => cur.uri.authority().into_bytes(),
                // the value reaches the wire as the caller wrote it, leading zeros and all
                "content-length" => format!("{}{}", if ctx.chance(1, 3) { "0".repeat(ctx.range(1, 4)) } else { String::new() }, cur.body.len()).into_bytes(),
                "transfer-encoding" => b"chunked".to_vec(),
                "connection" => b"keep-alive".to_vec(),
                _ => format!("jar-hop{}-{}-{}", depth, i, tag).into_bytes(),
            };
            let structural = matches!(name.as_str(), "host" | "content-length" | "transfer-encoding" | "connection");
            if !structural && ctx.chance(1, 6) {
                // header values are bytes, not text (a Latin-1 cookie, a binary token)
                value.extend_from_slice(&[b'=', 0xe9, 0xff, 0x80, b'z']);
            }
            if (prop == "C16" || prop == "C02") && !orig.is_empty() && ctx.chance(1, 8) {
                // the jar re-attaches exactly what the original request carried
                let (on, ov) = orig[ctx.draw_usize(orig.len())].clone();
                if on != "content-length" {
                    added.push((on.to_ascii_lowercase(), ov));
                    continue;
                }
            }
            added.push((name, value));
        }
        // keep the resulting request inside what C17 accepts
        let eff_orig: Vec<Hdr> = grouped(&orig).into_iter().filter(|(n, _)| !cur.suppressed.contains(&n.as_str())).collect();
        loop {
            let probe = ReqCfg { method: cur.method.clone(), version, uri: cur.uri.clone(), orig: eff_orig.clone(), added: added.clone(), despite: despite0 && depth == 0, framing: Framing::None, expect: false };
            if classify(&probe, 0).0 == Validity::Valid {
                break;
            }
            // drop the structural additions one by one (last first)
            match added.iter().rposition(|(n, _)| n == "host" || n == "content-length" || n == "transfer-encoding") {
                Some(i) => {
                    added.remove(i);
                }
                None => break,
            }
        }
        for (n, v) in &added {
            if let Err(e) = lib("Flow<Prepare>::header", || flow.header(n.as_str(), v.as_slice())) {
                fail!("FOREIGN", "", "header(): {}", e);
            }
        }
        cur.added = added;
        if prop == "C17" && depth >= 1 && (ctx.flip() || depth as usize >= n_hops) {
            // ---- the caller's amendment makes the redirected (body-less) request invalid
            let (what, bad): (&str, Vec<Hdr>) = match ctx.draw(6) {
                0 => ("duplicate content-length", vec![("content-length".into(), b"5".to_vec()), ("content-length".into(), b"5".to_vec())]),
                1 => ("non-numeric content-length", vec![("content-length".into(), b"abc".to_vec())]),
                2 => ("negative content-length", vec![("content-length".into(), b"-1".to_vec())]),
                3 => ("content-length on a body-less method", vec![("content-length".into(), b"7".to_vec())]),
                4 => ("duplicate host", vec![("host".into(), b"x.test".to_vec()), ("host".into(), b"y.test".to_vec())]),
                _ => ("transfer-encoding: chunked on a body-less method", vec![("transfer-encoding".into(), b"chunked".to_vec())]),
            };
            for (n, v) in cur.added.iter().filter(|(n, _)| n != "host" && n != "content-length" && n != "transfer-encoding") {
                let _ = lib("Flow<Prepare>::header", || flow.header(n.as_str(), v.as_slice()));
            }
            for (n, v) in &bad {
                if let Err(e) = lib("Flow<Prepare>::header", || flow.header(n.as_str(), v.as_slice())) {
                    fail!("FOREIGN", "", "header(): {}", e);
                }
            }
            set_observed(true);
            let mut f = lib("Flow<Prepare>::proceed", || flow.proceed());
            let mut buf = vec![0u8; 4096];
            ctx.sig3(777, depth as u64, what.len() as u64);
            for (k, n) in [4096usize, 0, 64, 4096].iter().enumerate() {
                let r = lib("Flow<SendRequest>::write", || f.write(&mut buf[..*n]));
                ctx.ev(|| format!("redirected {} request with {}: attempt {} write(out={}) -> {:?}", cur.method, what, k, n, r.as_ref().map_err(crate::drive::err_name)));
                match r {
                    Ok(w) => fail!("C17.invalid_accepted", "redirected", "redirect depth {}: a {} request amended with {} was written ({} bytes on attempt {}) (chain: {})", depth, cur.method, what, w, k, trail.join(" => ")),
                    Err(ureq_proto::Error::OutputOverflow) => fail!("C17.invalid_accepted", "redirected-overflow", "redirect depth {}: a {} request amended with {} got as far as output-overflow", depth, cur.method, what),
                    Err(_) => {}
                }
                ensure!(!lib("Flow<SendRequest>::can_proceed", || f.can_proceed()), "C17.ready_after_refusal", "ready to advance after refusing an invalid redirected request");
            }
            ctx.count("p:invalid_redirected_request_refused");
            ctx.nontrivial = true;
            return Ok(());
        }
        if despite_pending {
            lib("Flow<Prepare>::send_body_despite_method", || flow.send_body_despite_method());
            despite_pending = false;
            ctx.count("p:despite_after_headers");
        }
        // a caller may also decide to send a body with the redirected (body-less) request
        let mut despite_here = false;
        if depth >= 1 && !method_needs_body(&cur.method) && !cur.added.iter().any(|(n, _)| n == "content-length") && ctx.chance(1, 10) {
            lib("Flow<Prepare>::send_body_despite_method", || flow.send_body_despite_method());
            despite_here = true;
            cur.body = body_bytes(seed, 7, ctx.range(0, 20));
            ctx.count("p:despite_method_on_redirected_flow");
        }
        // ---- C14: the flow's own idea of where it goes
        let flow_uri = lib("Flow<Prepare>::uri", || uri_of(flow.uri()));
        let flow_method = lib("Flow<Prepare>::method", || flow.method().as_str().to_string());
        if depth > 0 {
            match &flow_uri {
                Some(u) if same_uri(u, &cur.uri) => {}
                other => {
                    if prop == "C14" {
                        fail!("C14.wrong_target", "", "after {} the new flow's URI is {:?} but RFC 3986 resolution gives {} (chain: {})", trail.last().unwrap(), other.as_ref().map(|u| u.render()), cur.uri.render(), trail.join(" => "));
                    }
                    fail!("FOREIGN", "", "target differs from the reference (C14's business)");
                }
            }
            if flow_method != cur.method {
                if prop == "C15" {
                    fail!("C15.wrong_method", "", "redirected request method is {} but the table gives {} (chain: {})", flow_method, cur.method, trail.join(" => "));
                }
                fail!("FOREIGN", "", "method differs from the table (C15's business)");
            }
        }
        if te_orig && depth >= 1 {
            ctx.count("p:redirected_request_invalid_by_inherited_te");
            ctx.nontrivial = true;
            break;
        }
        // ================================================================ the exchange at the receiving origin
        let last_hop = depth as usize >= n_hops;
        // what the origin answers
        let status: u16 = if last_hop {
            200
        } else if prop == "C15" {
            if depth == 0 {
                status0
            } else {
                300 + ctx.draw(100) as u16
            }
        } else if prop == "C13" || prop == "C14" || prop == "C16" || prop == "C02" {
            *ctx.pick(&[301u16, 302, 303, 307, 308, 300, 305, 399])
        } else {
            302
        };
        let status = if prop == "C15" && !last_hop && ctx.chance(1, 40) { *ctx.pick(&[200u16, 204, 404, 299, 400]) } else { status };
        // Location(s)
        let mut locs: Vec<String> = Vec::new();
        let mut locs_raw: Vec<Vec<u8>> = Vec::new();
        let mut loc_class = "good";
        let mut form = "";
        if !last_hop {
            if rich && ctx.chance(1, 12) {
                loc_class = *ctx.pick(&["missing", "must-error", "garbage"]);
            }
            if prop == "C15" && ctx.chance(1, 10) {
                // the redirect state does not depend on a Location header being there
                loc_class = "missing";
            }
            match loc_class {
                "good" => {
                    if rich && ctx.chance(1, 4) {
                        // several Location fields: the last one counts
                        let k = ctx.range(1, 2);
                        for _ in 0..k {
                            locs.push(gen_location(ctx, true, &cur.uri).0);
                        }
                    }
                    let (l, f) = if (prop == "C13" || prop == "C16") && ctx.chance(1, 10) {
                        // back to exactly where it all started
                        (uri0.render(), "original-uri")
                    } else {
                        gen_location(ctx, rich, &cur.uri)
                    };
                    form = f;
                    locs.push(l);
                }
                "must-error" => locs_raw.push(must_error_location(ctx)),
                "garbage" => locs_raw.push(garbage_location(ctx)),
                _ => {}
            }
        }
        let with_body = if depth == 0 && prop == "C15" { resp_body0 } else { ctx.chance(1, 3) };
        let spec = RespSpec {
            status,
            http11: true,
            cl: if with_body { ClSpec::Num(ctx.range(0, 30) as u64) } else if ctx.chance(1, 3) { ClSpec::Num(0) } else { ClSpec::Absent },
            te: None,
            conn: if ctx.chance(1, 6) { vec!["close"] } else { vec![] },
            generic_fields: ctx.range(0, 2),
            location: locs.clone(),
            location_raw: locs_raw.clone(),
            close_len: 0,
        };
        let plan = build_resp(ctx, &cur.method, &spec);
        if plan.truth == RF::Close {
            // a final 200 without framing: close-delimited empty body
        }
        let mut stream = plan.bytes();
        let mut shift = 0usize;
        if prop == "C15" && ctx.chance(1, 15) {
            // an interim 100 nobody asked for precedes the response
            let mut s2 = b"HTTP/1.1 100 Continue\r\n\r\n".to_vec();
            shift = s2.len();
            s2.extend_from_slice(&stream);
            stream = s2;
            ctx.count("f:peer_unsolicited_100");
        }
        let mut early = false;
        if (prop == "C14" || prop == "C15") && shift == 0 && status >= 200 && ctx.chance(1, 10) {
            // history: an interim 1xx head precedes the response; it may carry a Location of its
            // own, which is not "the Location of the response". The caller polls past it.
            let loc = if ctx.chance(2, 3) { Some(*ctx.pick(&["http://stale.example/early", "/early-hint", "//stale.example:81/x"])) } else { None };
            let mut s2 = crate::scen_exchange::interim_1xx(ctx, loc);
            shift = s2.len();
            s2.extend_from_slice(&stream);
            stream = s2;
            early = true;
            ctx.count("f:interim_1xx_before_final_head");
        }
        let sliced = ctx.chance(1, 4) || prop == "C02";
        let mut arrivals = if sliced { gen_arrival(ctx, stream.len(), &plan.line_ends.iter().map(|e| e + shift).collect::<Vec<_>>(), 60).0 } else { vec![stream.len()] };
        if let Some((a, b)) = plan.protected() {
            arrivals.retain(|p| !(*p >= a + shift && *p < b + shift));
        }
        if arrivals.last() != Some(&stream.len()) {
            arrivals.push(stream.len());
        }
        let mut pol = if sliced { Policy::draw(ctx, AwaitPolicy::GiveUpAtOnce) } else { Policy::canonical(AwaitPolicy::GiveUpAtOnce) };
        if prop == "C02" {
            pol.head_out = *ctx.pick(&[crate::world::Sz::Tiny, crate::world::Sz::Random, crate::world::Sz::Mixed]);
            pol.canonical = false;
        }
        pol.skip_interim = early;
        set_observed(true);
        let ex = Exchange { prop, body: &cur.body, policy: pol, server: ServerPlan { msgs: vec![], close_after: plan.truth == RF::Close }, fixed_stream: Some(FixedStream { stream: &stream, consumed: 0, visible: 0, arrivals }) };
        let obs = ex.run(ctx, flow)?;
        ctx.sig3(depth as u64 * 1000 + status as u64, obs.edges.len() as u64, cur.added.len().min(9) as u64);
        ctx.sig(obs.schedule_sig());
        // ---- the head as the receiving origin reads it
        let parsed = match parse_request_head(obs.head()) {
            Ok(Some(p)) => p,
            other => {
                if let Terminal::Error(s, e) = &obs.terminal {
                    if prop == "C13" && depth > 0 && framing != Framing::None && (e.contains("forbids body") || e.contains("content-length")) {
                        // the inherited Content-Length is still effective in the redirected request:
                        // it makes the body-less request invalid before a byte reaches the wire
                        fail!("C13.content_length_leaked", "refused", "hop {} to {}: the redirected {} request was refused in {} ({}): the original request's Content-Length is still effective (chain: {})", depth, cur.uri.render(), cur.method, s, e, trail.join(" => "));
                    }
                    if prop == "C16" || prop == "C02" {
                        fail!(format!("{}.request_refused", prop), "", "hop {}: a request C17 accepts was refused in {}: {} (added {:?})", depth, s, e, cur.added.iter().map(|(n, _)| n.as_str()).collect::<Vec<_>>());
                    }
                    fail!("FOREIGN", "", "hop {} failed in {}: {}", depth, s, e);
                }
                if prop == "C02" || prop == "C16" {
                    fail!(format!("{}.head_incomplete", prop), if depth > 0 { "redirected" } else { "depth0" }, "hop {}: the request head never arrived completely at the origin (ended {} after {} calls, {} overflow retries with buffers up to 64 KiB): {:?} / wire {:?}", depth, obs.terminal.name(), obs.calls, obs.overflow_retries, other.map(|o| o.map(|p| p.len)), show_bytes(obs.head()));
                }
                fail!("FOREIGN", "", "hop {}: no complete head at the origin: {:?}", depth, other.map(|o| o.map(|p| p.len)));
            }
        };
        let exp_cfg = ReqCfg { method: cur.method.clone(), version, uri: cur.uri.clone(), orig: orig.clone(), added: cur.added.clone(), despite: (despite0 && depth == 0) || despite_here, framing: if depth == 0 { framing.clone() } else { Framing::None }, expect: false };
        let exp = crate::reqgen::expected_head_opt(&exp_cfg, &cur.suppressed, &cur.optional);
        let head_cmp = compare_head(&parsed, &exp);
        match prop {
            "C13" if depth > 0 => {
                if with_cookie && (field_has(&parsed, "cookie", b"S3CR3T-COOKIE")) {
                    fail!("C13.cookie_leaked", "", "hop {} to {}: the original request's Cookie reached the redirect target (chain: {})", depth, cur.uri.render(), trail.join(" => "));
                }
                if parsed.fields.iter().any(|(n, v)| n == "content-length" && v == cl_secret.to_string().as_bytes()) && framing != Framing::None {
                    fail!("C13.content_length_leaked", "", "hop {} to {}: the original Content-Length reached the redirect target (chain: {})", depth, cur.uri.render(), trail.join(" => "));
                }
                // the same three clauses on the request as its accessor shows it
                if let Some(am) = &obs.accessor_headers {
                    let has = |name: &str, needle: &[u8]| am.iter().any(|(n, v)| n == name && crate::refs::find(v, needle).is_some());
                    let allowed = policy_samehost && cur.uri.host.eq_ignore_ascii_case(&uri0.host) && (cur.uri.scheme == uri0.scheme || cur.uri.scheme == "https");
                    if with_cookie && has("cookie", b"S3CR3T-COOKIE") {
                        fail!("C13.cookie_leaked", "accessor", "hop {} to {}: headers_map() of the redirected request shows the original request's Cookie (chain: {})", depth, cur.uri.render(), trail.join(" => "));
                    }
                    if has("authorization", b"S3CR3T-AUTH") && !allowed {
                        fail!("C13.authorization_leaked", "accessor", "hop {} to {}: headers_map() of the redirected request shows the original Authorization with policy {:?} (chain: {})", depth, cur.uri.render(), policy, trail.join(" => "));
                    }
                    ctx.count("p:accessor_view_checked");
                }
                let auth_present = field_has(&parsed, "authorization", b"S3CR3T-AUTH");
                let allowed = policy_samehost && cur.uri.host.eq_ignore_ascii_case(&uri0.host) && (cur.uri.scheme == uri0.scheme || cur.uri.scheme == "https");
                if auth_present && !allowed {
                    fail!("C13.authorization_leaked", if !policy_samehost { "never-policy" } else if !cur.uri.host.eq_ignore_ascii_case(&uri0.host) { "other-host" } else { "scheme-downgrade" }, "hop {} to {}: Authorization of the original request ({}) was sent with policy {:?} (chain: {})", depth, cur.uri.render(), uri0.render(), policy, trail.join(" => "));
                }
                if auth_present {
                    ctx.count("p:auth_kept");
                } else if allowed && with_auth {
                    ctx.count("p:auth_dropped_although_allowed");
                }
                if !cur.uri.host.eq_ignore_ascii_case(&uri0.host) {
                    ctx.count("p:cross_host_hop");
                } else if depth > 1 {
                    ctx.count("p:returned_to_original_host");
                }
            }
            "C14" if depth > 0 => {
                let want_target = cur.uri.path_and_query();
                if parsed.target != want_target {
                    fail!("C14.wrong_request_line", "", "hop {}: request line carries {:?}, the resolved URI is {} (chain: {})", depth, parsed.target, cur.uri.render(), trail.join(" => "));
                }
                let host_vals: Vec<&Vec<u8>> = parsed.fields.iter().filter(|(n, _)| n == "host").map(|(_, v)| v).collect();
                let derived = !cur.added.iter().any(|(n, _)| n == "host");
                if derived {
                    let ok = host_vals.len() == 1 && {
                        let h = String::from_utf8_lossy(host_vals[0]).to_ascii_lowercase();
                        h == cur.uri.host || h == format!("{}:{}", cur.uri.host, cur.uri.eff_port())
                    };
                    if !ok {
                        // narrow signature of known finding D16: the one Host line on the wire is the
                        // original request's own Host header, carried over to another origin
                        let stale = explicit_host.as_ref().map_or(false, |h| host_vals.len() == 1 && host_vals[0] == h);
                        let known = ctx.report("C14.wrong_host_header", if stale { "inherited-explicit-host" } else { "" }, || format!("hop {}: Host header {:?} does not name {} (chain: {})", depth, host_vals.iter().map(|v| show_bytes(v)).collect::<Vec<_>>(), cur.uri.host, trail.join(" => ")))?;
                        if known {
                            ctx.count("p:stale_explicit_host_at_another_origin");
                        }
                    }
                }
            }
            "C16" => {
                // every added header on the wire, in order, ahead of the originals
                let originals: Vec<Hdr> = grouped(&orig);
                let mut ai = 0usize;
                for (n, v) in &parsed.fields {
                    if ai < cur.added.len() && cur.added[ai].0 == *n && cur.added[ai].1 == *v {
                        ai += 1;
                        continue;
                    }
                    if ai < cur.added.len() && originals.iter().any(|(on, ov)| on == n && ov == v) {
                        fail!("C16.original_before_added", "", "hop {}: original header {:?} precedes caller-added header {:?}", depth, n, cur.added[ai].0);
                    }
                }
                // an added header that equals an inherited one must be there in addition to it
                for (n, v) in &cur.added {
                    let want = cur.added.iter().filter(|(an, av)| an == n && av == v).count() + originals.iter().filter(|(on, ov)| on == n && ov == v && !cur.suppressed.contains(&on.as_str()) && !cur.optional.contains(&on.as_str())).count();
                    let got = parsed.fields.iter().filter(|(wn, wv)| wn == n && wv == v).count();
                    if got < want {
                        fail!("C16.added_header_missing", "duplicate-of-original", "hop {}: header {:?}: {:?} was added {} time(s) and is inherited {} time(s) but is on the wire only {} time(s)", depth, n, show_bytes(v), want - originals.iter().filter(|(on, ov)| on == n && ov == v && !cur.suppressed.contains(&on.as_str()) && !cur.optional.contains(&on.as_str())).count(), originals.iter().filter(|(on, ov)| on == n && ov == v && !cur.suppressed.contains(&on.as_str()) && !cur.optional.contains(&on.as_str())).count(), got);
                    }
                }
                if ai < cur.added.len() {
                    fail!("C16.added_header_missing", if depth == 0 { "depth0" } else { "redirected" }, "hop {} (redirect depth {}): header {:?}: {:?} added in Prepare is not on the wire (policy {:?}; wire fields: {:?})", depth, depth, cur.added[ai].0, show_bytes(&cur.added[ai].1), policy, parsed.fields.iter().map(|(n, _)| n.as_str()).collect::<Vec<_>>());
                }
                if depth > 0 && cur.added.iter().any(|(n, _)| n == "cookie" || n == "authorization") {
                    ctx.count("p:credentials_attached_for_redirect_target");
                }
            }
            "C02" if depth > 0 => {
                if let Err(e) = head_cmp {
                    fail!("C02.unfaithful_head", "redirected", "hop {}: {} (chain: {}) wire: {:?}", depth, e, trail.join(" => "), show_bytes(obs.head()));
                }
                let mut pos = 0usize;
                for k in &obs.head_pieces {
                    pos += k;
                    if *k > 0 && !parsed.unit_ends.contains(&pos) && pos + 2 != parsed.len {
                        fail!("C02.partial_line", "redirected", "hop {}: a head write ended inside a line (offset {})", depth, pos);
                    }
                }
                ctx.count("p:head_at_redirect_depth");
            }
            _ => {}
        }
        // ================================================================ what comes after
        let is_redirect_status = (300..400).contains(&status) && status != 304;
        if early && obs.responses.len() < 2 && !matches!(obs.terminal, Terminal::Redirect(_) | Terminal::Cleanup(_)) {
            // polling past a delivered interim head was refused: nothing to judge
            ctx.count("p:interim_poll_refused");
            ctx.nontrivial = true;
            break;
        }
        let terminal = obs.terminal;
        if prop == "C15" {
            match (&terminal, is_redirect_status) {
                (Terminal::Redirect(_), false) => fail!("C15.redirect_state_for_non_redirect", "", "status {} ended in the Redirect state", status),
                (Terminal::Cleanup(_), true) => fail!("C15.no_redirect_state", "", "status {} did not enter the Redirect state", status),
                _ => {}
            }
        }
        let mut red = match terminal {
            Terminal::Redirect(f) => f,
            Terminal::Cleanup(_) => {
                ctx.nontrivial = depth > 0 || prop == "C16" || prop == "C15";
                break;
            }
            Terminal::Stuck(s) => {
                if prop == "C15" && is_redirect_status {
                    fail!("C15.no_redirect_state", "stuck", "{} answered with {}: the flow is stuck in {} and never enters the Redirect state (path {})", cur.method, status, s, obs.edges.iter().map(|e| e.1).collect::<Vec<_>>().join(">"));
                }
                fail!("FOREIGN", "", "hop {} stuck in {}", depth, s)
            }
            Terminal::Error(s, e) => {
                if prop == "C15" && is_redirect_status {
                    fail!("C15.no_redirect_state", "error", "{} answered with {}: the flow failed in {} ({}) and never enters the Redirect state", cur.method, status, s, e);
                }
                fail!("FOREIGN", "", "hop {} failed in {}: {}", depth, s, e)
            }
        };
        if prop == "C15" {
            let st = lib("Flow<Redirect>::status", || red.status().as_u16());
            ensure!(st == status, "C15.wrong_status_reported", "Redirect.status() = {} for a {}", st, status);
        }
        let r = lib("Flow<Redirect>::as_new_flow", || red.as_new_flow(policy));
        let want_method = ref_redirect_method(&cur.method, status);
        match loc_class {
            "missing" | "must-error" => {
                match r {
                    Err(_) => ctx.count("p:bad_location_reported"),
                    Ok(x) => {
                        if prop == "C14" {
                            fail!("C14.bad_location_accepted", loc_class, "a {} Location ({:?}) did not give an error (result: {})", loc_class, locs_raw.first().map(|v| show_bytes(v)), if x.is_some() { "a new flow" } else { "None" });
                        }
                    }
                }
                ctx.nontrivial = true;
                break;
            }
            "garbage" => {
                if let Ok(Some(nf)) = r {
                    // if a flow is produced its origin is the current one or one named in the value
                    let u = lib("Flow<Prepare>::uri", || uri_of(nf.uri()));
                    if let Some(u) = u {
                        let raw = locs_raw[0].to_ascii_lowercase();
                        let named = crate::refs::find(&raw, u.host.to_ascii_lowercase().as_bytes()).is_some();
                        if !(u.host.eq_ignore_ascii_case(&cur.uri.host) || named) && prop == "C14" {
                            fail!("C14.wrong_origin", "", "garbage Location {:?} led to host {} which is neither the current host nor named in the value", show_bytes(&locs_raw[0]), u.host);
                        }
                    }
                }
                ctx.count("p:garbage_location");
                ctx.nontrivial = true;
                break;
            }
            _ => {}
        }
        let next_flow = match r {
            Ok(Some(f)) => {
                if want_method.is_none() {
                    if prop == "C15" {
                        fail!("C15.followed_forbidden", "", "a {} for {} was followed", status, cur.method);
                    }
                    fail!("FOREIGN", "", "followed although the table forbids it");
                }
                f
            }
            Ok(None) => {
                if want_method.is_some() {
                    if prop == "C15" {
                        fail!("C15.not_followed", "", "a {} for {} was not followed", status, cur.method);
                    }
                    fail!("FOREIGN", "", "not followed although the table allows it");
                }
                ctx.count("p:redirect_not_followed");
                // asking again is permitted and must give an answer again (C14: never a panic)
                let again = lib("repeat_Flow<Redirect>::as_new_flow", || red.as_new_flow(policy).map(|o| o.is_some()));
                if prop == "C15" && matches!(again, Ok(true)) {
                    fail!("C15.followed_forbidden", "second-call", "a {} for {} was not followed at first but is followed when asked again", status, cur.method);
                }
                ctx.nontrivial = true;
                break;
            }
            Err(e) => {
                if prop == "C14" {
                    fail!("C14.good_location_refused", form, "Location {:?} against {} gave an error: {}", locs.last(), cur.uri.render(), e);
                }
                fail!("FOREIGN", "", "as_new_flow: {}", e);
            }
        };
        // ---- ground truth for the next hop
        let target = match resolve(&cur.uri, locs.last().unwrap()) {
            Some(t) => t,
            None => fail!("FOREIGN", "", "reference resolver cannot resolve {:?}", locs.last()),
        };
        let new_method = want_method.unwrap();
        let keep_auth = policy_samehost && target.host.eq_ignore_ascii_case(&uri0.host) && (target.scheme == uri0.scheme || target.scheme == "https");
        let mut suppressed = vec!["cookie", "content-length"];
        if !keep_auth {
            suppressed.push("authorization");
        }
        trail.push(format!("{} {} [{}] => {} {}", status, locs.last().unwrap(), form, new_method, target.render()));
        ctx.sig3(form.len() as u64, (target.host != cur.uri.host) as u64 * 2 + (target.scheme != cur.uri.scheme) as u64, 0);
        let optional = if keep_auth { vec!["authorization"] } else { vec![] };
        cur = Hop { method: new_method, uri: target, added: vec![], suppressed, optional, body: vec![] };
        flow = next_flow;
        depth += 1;
        set_observed(false);
    }
    ctx.sample(|| format!("policy {:?}, original headers {:?}; chain: {}", policy, orig.iter().map(|(n, _)| n.as_str()).collect::<Vec<_>>(), trail.join(" => ")));
    if depth >= 2 {
        ctx.count("p:chain_depth_ge2");
    }
    let _ = make_prepare;
    Ok(())
}
