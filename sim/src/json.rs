//! Minimal JSON value, writer and parser (no external crates; nothing can be fetched here).

use std::fmt::Write;

#[derive(Clone, Debug, PartialEq)]
pub enum J {
    Null,
    Bool(bool),
    /// Raw number text (integers stay exact).
    Num(String),
    Str(String),
    Arr(Vec<J>),
    Obj(Vec<(String, J)>),
}

impl J {
    pub fn u(v: u64) -> J {
        J::Num(v.to_string())
    }
    pub fn i(v: i64) -> J {
        J::Num(v.to_string())
    }
    pub fn f(v: f64) -> J {
        if v.is_finite() {
            J::Num(format!("{:.3}", v))
        } else {
            J::Num("0".into())
        }
    }
    pub fn s<S: Into<String>>(v: S) -> J {
        J::Str(v.into())
    }
    pub fn obj(v: Vec<(&str, J)>) -> J {
        J::Obj(v.into_iter().map(|(k, v)| (k.to_string(), v)).collect())
    }
    pub fn get(&self, k: &str) -> Option<&J> {
        match self {
            J::Obj(v) => v.iter().find(|(n, _)| n == k).map(|(_, v)| v),
            _ => None,
        }
    }
    pub fn as_str(&self) -> Option<&str> {
        match self {
            J::Str(s) => Some(s),
            _ => None,
        }
    }
    pub fn as_u64(&self) -> Option<u64> {
        match self {
            J::Num(s) => s.parse::<u64>().ok(),
            _ => None,
        }
    }
    pub fn as_arr(&self) -> Option<&[J]> {
        match self {
            J::Arr(v) => Some(v),
            _ => None,
        }
    }

    pub fn to_string_pretty(&self) -> String {
        let mut s = String::new();
        self.write(&mut s, 0, true);
        s.push('\n');
        s
    }

    pub fn to_string_compact(&self) -> String {
        let mut s = String::new();
        self.write(&mut s, 0, false);
        s
    }

    fn write(&self, out: &mut String, ind: usize, pretty: bool) {
        match self {
            J::Null => out.push_str("null"),
            J::Bool(b) => out.push_str(if *b { "true" } else { "false" }),
            J::Num(n) => out.push_str(n),
            J::Str(s) => write_str(out, s),
            J::Arr(v) => {
                // arrays of scalars stay on one line
                let scalar = v
                    .iter()
                    .all(|x| matches!(x, J::Num(_) | J::Bool(_) | J::Null));
                out.push('[');
                for (i, x) in v.iter().enumerate() {
                    if i > 0 {
                        out.push(',');
                    }
                    if pretty && !scalar {
                        out.push('\n');
                        pad(out, ind + 1);
                    }
                    x.write(out, ind + 1, pretty);
                }
                if pretty && !scalar && !v.is_empty() {
                    out.push('\n');
                    pad(out, ind);
                }
                out.push(']');
            }
            J::Obj(v) => {
                out.push('{');
                for (i, (k, x)) in v.iter().enumerate() {
                    if i > 0 {
                        out.push(',');
                    }
                    if pretty {
                        out.push('\n');
                        pad(out, ind + 1);
                    }
                    write_str(out, k);
                    out.push(':');
                    if pretty {
                        out.push(' ');
                    }
                    x.write(out, ind + 1, pretty);
                }
                if pretty && !v.is_empty() {
                    out.push('\n');
                    pad(out, ind);
                }
                out.push('}');
            }
        }
    }
}

fn pad(out: &mut String, n: usize) {
    for _ in 0..n {
        out.push(' ');
    }
}

fn write_str(out: &mut String, s: &str) {
    out.push('"');
    for c in s.chars() {
        match c {
            '"' => out.push_str("\\\""),
            '\\' => out.push_str("\\\\"),
            '\n' => out.push_str("\\n"),
            '\r' => out.push_str("\\r"),
            '\t' => out.push_str("\\t"),
            c if (c as u32) < 0x20 => {
                let _ = write!(out, "\\u{:04x}", c as u32);
            }
            c => out.push(c),
        }
    }
    out.push('"');
}

/// Render bytes for humans: printable ASCII as is, the rest as \xNN, CR/LF as \r \n.
pub fn show_bytes(b: &[u8]) -> String {
    let mut s = String::with_capacity(b.len() + 8);
    for &c in b.iter().take(400) {
        match c {
            b'\r' => s.push_str("\\r"),
            b'\n' => s.push_str("\\n"),
            b'\\' => s.push_str("\\\\"),
            0x20..=0x7e => s.push(c as char),
            _ => {
                let _ = write!(s, "\\x{:02x}", c);
            }
        }
    }
    if b.len() > 400 {
        let _ = write!(s, "...(+{} bytes)", b.len() - 400);
    }
    s
}

// ------------------------------------------------------------------------------------ parser

pub fn parse(text: &str) -> Result<J, String> {
    let b = text.as_bytes();
    let mut p = 0usize;
    let v = parse_value(b, &mut p)?;
    skip_ws(b, &mut p);
    if p != b.len() {
        return Err(format!("trailing data at {}", p));
    }
    Ok(v)
}

fn skip_ws(b: &[u8], p: &mut usize) {
    while *p < b.len() && matches!(b[*p], b' ' | b'\n' | b'\r' | b'\t') {
        *p += 1;
    }
}

fn parse_value(b: &[u8], p: &mut usize) -> Result<J, String> {
    skip_ws(b, p);
    if *p >= b.len() {
        return Err("unexpected end".into());
    }
    match b[*p] {
        b'{' => {
            *p += 1;
            let mut v = Vec::new();
            skip_ws(b, p);
            if *p < b.len() && b[*p] == b'}' {
                *p += 1;
                return Ok(J::Obj(v));
            }
            loop {
                skip_ws(b, p);
                let k = match parse_value(b, p)? {
                    J::Str(s) => s,
                    _ => return Err("object key must be a string".into()),
                };
                skip_ws(b, p);
                if *p >= b.len() || b[*p] != b':' {
                    return Err(format!("expected ':' at {}", p));
                }
                *p += 1;
                let x = parse_value(b, p)?;
                v.push((k, x));
                skip_ws(b, p);
                if *p < b.len() && b[*p] == b',' {
                    *p += 1;
                    continue;
                }
                if *p < b.len() && b[*p] == b'}' {
                    *p += 1;
                    return Ok(J::Obj(v));
                }
                return Err(format!("expected ',' or '}}' at {}", p));
            }
        }
        b'[' => {
            *p += 1;
            let mut v = Vec::new();
            skip_ws(b, p);
            if *p < b.len() && b[*p] == b']' {
                *p += 1;
                return Ok(J::Arr(v));
            }
            loop {
                let x = parse_value(b, p)?;
                v.push(x);
                skip_ws(b, p);
                if *p < b.len() && b[*p] == b',' {
                    *p += 1;
                    continue;
                }
                if *p < b.len() && b[*p] == b']' {
                    *p += 1;
                    return Ok(J::Arr(v));
                }
                return Err(format!("expected ',' or ']' at {}", p));
            }
        }
        b'"' => {
            *p += 1;
            let mut s = Vec::new();
            while *p < b.len() {
                let c = b[*p];
                *p += 1;
                match c {
                    b'"' => {
                        return String::from_utf8(s)
                            .map(J::Str)
                            .map_err(|_| "bad utf8".to_string())
                    }
                    b'\\' => {
                        if *p >= b.len() {
                            break;
                        }
                        let e = b[*p];
                        *p += 1;
                        match e {
                            b'n' => s.push(b'\n'),
                            b'r' => s.push(b'\r'),
                            b't' => s.push(b'\t'),
                            b'b' => s.push(8),
                            b'f' => s.push(12),
                            b'u' => {
                                if *p + 4 > b.len() {
                                    return Err("bad \\u".into());
                                }
                                let h = std::str::from_utf8(&b[*p..*p + 4])
                                    .ok()
                                    .and_then(|h| u32::from_str_radix(h, 16).ok())
                                    .ok_or("bad \\u")?;
                                *p += 4;
                                let ch = char::from_u32(h).unwrap_or('?');
                                let mut buf = [0u8; 4];
                                s.extend_from_slice(ch.encode_utf8(&mut buf).as_bytes());
                            }
                            other => s.push(other),
                        }
                    }
                    c => s.push(c),
                }
            }
            Err("unterminated string".into())
        }
        b't' if b[*p..].starts_with(b"true") => {
            *p += 4;
            Ok(J::Bool(true))
        }
        b'f' if b[*p..].starts_with(b"false") => {
            *p += 5;
            Ok(J::Bool(false))
        }
        b'n' if b[*p..].starts_with(b"null") => {
            *p += 4;
            Ok(J::Null)
        }
        _ => {
            let st = *p;
            while *p < b.len() && matches!(b[*p], b'0'..=b'9' | b'-' | b'+' | b'.' | b'e' | b'E') {
                *p += 1;
            }
            if st == *p {
                return Err(format!("unexpected byte at {}", st));
            }
            Ok(J::Num(String::from_utf8_lossy(&b[st..*p]).to_string()))
        }
    }
}
