//! One integer decides everything: splitmix64 -> xoshiro256**, and the choice tape.
//!
//! Every random decision of a simulated run goes through `Tape::draw`. In generation mode the
//! value comes from the PRNG and is appended to the recorded tape; in replay mode it is read
//! from a given tape (value mod bound, 0 when the tape is exhausted). A run is therefore a
//! pure function of (code under test, tape).

pub fn splitmix64(state: &mut u64) -> u64 {
    *state = state.wrapping_add(0x9E37_79B9_7F4A_7C15);
    let mut z = *state;
    z = (z ^ (z >> 30)).wrapping_mul(0xBF58_476D_1CE4_E5B9);
    z = (z ^ (z >> 27)).wrapping_mul(0x94D0_49BB_1331_11EB);
    z ^ (z >> 31)
}

pub fn mix(a: u64, b: u64) -> u64 {
    let mut s = a ^ b.rotate_left(32) ^ 0xD6E8_FEB8_6659_FD93;
    let x = splitmix64(&mut s);
    let y = splitmix64(&mut s);
    x ^ y.rotate_left(17)
}

#[derive(Clone)]
pub struct Xo {
    s: [u64; 4],
}

impl Xo {
    pub fn from_seed(seed: u64) -> Xo {
        let mut st = seed;
        let mut s = [0u64; 4];
        for v in s.iter_mut() {
            *v = splitmix64(&mut st);
        }
        if s == [0; 4] {
            s[0] = 1;
        }
        Xo { s }
    }

    #[inline]
    pub fn next(&mut self) -> u64 {
        let result = self.s[1].wrapping_mul(5).rotate_left(7).wrapping_mul(9);
        let t = self.s[1] << 17;
        self.s[2] ^= self.s[0];
        self.s[3] ^= self.s[1];
        self.s[1] ^= self.s[2];
        self.s[0] ^= self.s[3];
        self.s[2] ^= t;
        self.s[3] = self.s[3].rotate_left(45);
        result
    }
}

pub enum Src {
    Gen(Xo),
    Replay { tape: Vec<u64>, pos: usize },
}

pub struct Tape {
    src: Src,
    /// The values actually used by this run (already reduced mod bound).
    pub rec: Vec<u64>,
}

impl Tape {
    pub fn generate(seed: u64) -> Tape {
        Tape {
            src: Src::Gen(Xo::from_seed(seed)),
            rec: Vec::with_capacity(128),
        }
    }

    pub fn replay(tape: Vec<u64>) -> Tape {
        Tape {
            src: Src::Replay { tape, pos: 0 },
            rec: Vec::with_capacity(128),
        }
    }

    /// A value in `0..bound`. `bound <= 1` draws nothing (there is nothing to decide).
    #[inline]
    pub fn draw(&mut self, bound: u64) -> u64 {
        if bound <= 1 {
            return 0;
        }
        let v = match &mut self.src {
            Src::Gen(x) => {
                // Multiply-shift; bias is irrelevant for a search.
                let r = x.next();
                ((r as u128 * bound as u128) >> 64) as u64
            }
            Src::Replay { tape, pos } => {
                let v = tape.get(*pos).copied().unwrap_or(0);
                *pos += 1;
                v % bound
            }
        };
        self.rec.push(v);
        v
    }
}

/// FNV-1a style incremental hash for abstract trace signatures (no allocation, deterministic).
#[inline]
pub fn hash_step(h: u64, v: u64) -> u64 {
    let mut x = h ^ v.wrapping_mul(0x9E37_79B9_7F4A_7C15);
    x = x.rotate_left(23).wrapping_mul(0x1000_0000_01B3);
    x ^ (x >> 29)
}
