//! Batch runner: seeded search over many simulated runs, aggregation, minimisation, replay,
//! evidence.

use std::collections::{BTreeMap, HashSet};
use std::panic::{catch_unwind, AssertUnwindSafe};
use std::sync::atomic::{AtomicU64, Ordering};
use std::sync::Mutex;
use std::time::Instant;

use crate::ctx::{self, Ctx, PanicInfo, Violation, LAST_PANIC, R};
use crate::json::J;
use crate::rng::{hash_step, mix, Tape};

pub struct Prop {
    pub id: &'static str,
    pub scenario: &'static str,
    pub run: fn(&mut Ctx) -> R,
    pub quick: u64,
    pub thorough: u64,
    /// sub-batch names; sub = index % len
    pub subs: &'static [&'static str],
    pub level: &'static str,
    pub rule: &'static str,
    pub assumptions: &'static [&'static str],
    /// total number of abstract coverage cells (0 = none defined)
    pub cells_total: u32,
    pub cells_what: &'static str,
    /// true only where a finite range is swept completely on every run
    pub exhaustive_note: &'static str,
}

pub enum Outcome {
    Ok,
    Violation(Violation),
    Foreign(String),
    Harness(String),
}

fn tag(id: &str) -> u64 {
    let mut h = 0xcbf2_9ce4_8422_2325u64;
    for b in id.bytes() {
        h = hash_step(h, b as u64);
    }
    h
}

pub fn run_seed(verif_seed: u64, id: &str, index: u64) -> u64 {
    mix(mix(verif_seed, tag(id)), index)
}

pub struct RunCfg {
    pub index: u64,
    pub sub: u32,
    pub thorough: bool,
    pub tracing: bool,
    pub want_sample: bool,
}

pub fn run_one(prop: &Prop, tape: Tape, cfg: &RunCfg) -> (Ctx, Outcome) {
    let mut c = Ctx::new(tape, cfg.index, cfg.sub, cfg.thorough);
    c.tracing = cfg.tracing;
    c.want_sample = cfg.want_sample;
    ctx::SITE.with(|s| s.set(""));
    ctx::set_observed(true);
    LAST_PANIC.with(|p| *p.borrow_mut() = None);
    let res = catch_unwind(AssertUnwindSafe(|| (prop.run)(&mut c)));
    let out = match res {
        Ok(Ok(())) => Outcome::Ok,
        Ok(Err(v)) if v.code == "FOREIGN" => Outcome::Foreign(v.msg.chars().take(60).collect()),
        Ok(Err(v)) => Outcome::Violation(v),
        Err(_) => {
            let pi: PanicInfo = LAST_PANIC.with(|p| p.borrow_mut().take()).unwrap_or(PanicInfo {
                site: "",
                observed: true,
                file: "?".into(),
                line: 0,
                msg: "?".into(),
            });
            let in_harness = pi.file.starts_with("src/") && pi.site.is_empty()
                || pi.file.starts_with("src/scen")
                || pi.file.starts_with("src/refs")
                || pi.file.starts_with("src/runner")
                || pi.file.starts_with("src/world")
                || pi.file.starts_with("src/gen")
                || pi.file.starts_with("src/drive");
            let short = short_file(&pi.file);
            if in_harness {
                Outcome::Harness(format!("harness panic at {}:{}: {}", pi.file, pi.line, pi.msg))
            } else if pi.observed {
                let site = if pi.site.is_empty() { "unknown" } else { pi.site };
                Outcome::Violation(Violation {
                    code: format!("{}.panic.{}", prop.id, site),
                    key: format!("{}:{}", short, pi.line),
                    msg: format!("library panicked in {} at {}:{}: {}", site, pi.file, pi.line, pi.msg),
                })
            } else {
                Outcome::Foreign(format!("{}@{}:{}", pi.site, short, pi.line))
            }
        }
    };
    (c, out)
}

fn short_file(f: &str) -> String {
    // keep "src/…" tail so that keys do not depend on where the repo copy lives
    match f.rfind("/src/") {
        Some(i) => f[i + 1..].to_string(),
        None => f.to_string(),
    }
}

#[derive(Default)]
struct Agg {
    runs: u64,
    nontrivial: u64,
    sigs: HashSet<u64>,
    counts: BTreeMap<&'static str, u64>,
    cells: HashSet<u32>,
    sim_ns: u128,
    steps: u128,
    draws: u128,
    foreign: BTreeMap<String, u64>,
    known_hits: BTreeMap<(String, String), u64>,
    digest: u64,
    sample_idx: Vec<u64>,
    /// per code: (min index, violation, tape, sub)
    viol: BTreeMap<String, (u64, Violation, Vec<u64>, u32)>,
    viol_runs: u64,
    harness: Option<String>,
}

impl Agg {
    fn merge(&mut self, o: Agg) {
        self.runs += o.runs;
        self.nontrivial += o.nontrivial;
        self.sigs.extend(o.sigs);
        for (k, v) in o.counts {
            *self.counts.entry(k).or_insert(0) += v;
        }
        self.cells.extend(o.cells);
        self.sim_ns += o.sim_ns;
        self.steps += o.steps;
        self.draws += o.draws;
        for (k, v) in o.foreign {
            *self.foreign.entry(k).or_insert(0) += v;
        }
        for (k, v) in o.known_hits {
            *self.known_hits.entry(k).or_insert(0) += v;
        }
        self.digest ^= o.digest;
        self.sample_idx.extend(o.sample_idx);
        self.sample_idx.sort_unstable();
        self.sample_idx.truncate(3);
        for (k, v) in o.viol {
            match self.viol.get(&k) {
                Some(e) if e.0 <= v.0 => {}
                _ => {
                    self.viol.insert(k, v);
                }
            }
        }
        self.viol_runs += o.viol_runs;
        if self.harness.is_none() {
            self.harness = o.harness;
        }
    }
}

pub struct CheckResult {
    pub exit: i32,
}

pub fn verif_dir() -> String {
    match std::env::var("VERIF_DIR") {
        Ok(s) if !s.trim().is_empty() => s,
        _ => "/verif".to_string(),
    }
}

/// Where evidence and replay files go (default: the verif dir). Sensitivity and determinism
/// work points this elsewhere so that the committed evidence is never overwritten by it.
pub fn out_dir() -> String {
    match std::env::var("VERIF_OUT") {
        Ok(s) if !s.trim().is_empty() => s,
        _ => verif_dir(),
    }
}

pub fn run_check(prop: &Prop, thorough: bool, verif_seed: u64, jobs: usize, scale: f64) -> CheckResult {
    let t0 = Instant::now();
    let total = ((if thorough { prop.thorough } else { prop.quick }) as f64 * scale).max(1.0) as u64;
    let nsubs = prop.subs.len().max(1) as u64;
    let next = AtomicU64::new(0);
    let failing = AtomicU64::new(0);
    let merged = Mutex::new(Agg::default());
    // watchdog: per worker (run index + 1, start ms)
    let wd: Vec<(AtomicU64, AtomicU64)> = (0..jobs).map(|_| (AtomicU64::new(0), AtomicU64::new(0))).collect();
    let done = AtomicU64::new(0);
    const CHUNK: u64 = 64;

    println!(
        "hootsim: property={} scenario={} tier={} VERIF_SEED={} runs={} jobs={}",
        prop.id,
        prop.scenario,
        if thorough { "thorough" } else { "quick" },
        verif_seed,
        total,
        jobs
    );

    std::thread::scope(|s| {
        for w in 0..jobs {
            let next = &next;
            let failing = &failing;
            let merged = &merged;
            let wd = &wd;
            let done = &done;
            s.spawn(move || {
                let mut a = Agg::default();
                loop {
                    let start = next.fetch_add(CHUNK, Ordering::Relaxed);
                    if start >= total {
                        break;
                    }
                    if failing.load(Ordering::Relaxed) > 50_000 {
                        break;
                    }
                    for index in start..(start + CHUNK).min(total) {
                        let sub = (index % nsubs) as u32;
                        wd[w].1.store(t0.elapsed().as_millis() as u64, Ordering::Relaxed);
                        wd[w].0.store(index + 1, Ordering::Relaxed);
                        let tape = Tape::generate(run_seed(verif_seed, prop.id, index));
                        let cfg = RunCfg { index, sub, thorough, tracing: false, want_sample: false };
                        let (c, out) = run_one(prop, tape, &cfg);
                        wd[w].0.store(0, Ordering::Relaxed);
                        a.runs += 1;
                        a.sim_ns += c.sim_ns as u128;
                        a.steps += c.steps as u128;
                        a.draws += c.tape.rec.len() as u128;
                        for (k, v) in &c.counts {
                            *a.counts.entry(k).or_insert(0) += v;
                        }
                        for cell in &c.cells {
                            a.cells.insert(*cell);
                        }
                        for kh in &c.known_hits {
                            *a.known_hits.entry(kh.clone()).or_insert(0) += 1;
                        }
                        a.digest ^= hash_step(hash_step(0x1234_5678, index), c.sig);
                        match out {
                            Outcome::Ok => {
                                if c.nontrivial {
                                    a.nontrivial += 1;
                                    a.sigs.insert(c.sig);
                                    if a.sample_idx.len() < 3 {
                                        a.sample_idx.push(index);
                                    }
                                }
                            }
                            Outcome::Violation(v) => {
                                a.viol_runs += 1;
                                failing.fetch_add(1, Ordering::Relaxed);
                                let better = match a.viol.get(&v.code) {
                                    Some(e) => index < e.0,
                                    None => true,
                                };
                                if better {
                                    a.viol.insert(v.code.clone(), (index, v, c.tape.rec.clone(), sub));
                                }
                            }
                            Outcome::Foreign(site) => {
                                *a.foreign.entry(site).or_insert(0) += 1;
                            }
                            Outcome::Harness(m) => {
                                if a.harness.is_none() {
                                    a.harness = Some(format!("run {}: {}", index, m));
                                }
                            }
                        }
                    }
                }
                merged.lock().unwrap().merge(a);
                done.fetch_add(1, Ordering::Relaxed);
            });
        }
        // watchdog
        let wd = &wd;
        let done = &done;
        s.spawn(move || {
            // The watchdog counts its own wake-ups, not wall-clock time: when the whole machine is
            // paused (a VM snapshot) or starved, the watchdog is paused or starved with the workers
            // and does not mistake the gap for a hang. A run is a hang when the same worker has
            // been in the same run for 1600 consecutive ticks of >= 25 ms each (>= 40 s of
            // watchdog-perceived time; a simulated run takes microseconds).
            let mut seen: Vec<(u64, u32)> = vec![(0, 0); wd.len()];
            loop {
            if done.load(Ordering::Relaxed) == jobs as u64 {
                break;
            }
            std::thread::sleep(std::time::Duration::from_millis(25));
            for (wi, w) in wd.iter().enumerate() {
                let idx = w.0.load(Ordering::Relaxed);
                if idx != 0 && seen[wi].0 == idx {
                    seen[wi].1 += 1;
                } else {
                    seen[wi] = (idx, 0);
                }
                if idx != 0 && seen[wi].1 > 1600 {
                    let index = idx - 1;
                    let path = format!("{}/replays/{}-hang-{}-{}.json", out_dir(), prop.id, verif_seed, index);
                    let _ = std::fs::create_dir_all(format!("{}/replays", out_dir()));
                    let j = J::obj(vec![
                        ("property", J::s(prop.id)),
                        ("code", J::s(format!("{}.hang", prop.id))),
                        ("key", J::s("")),
                        ("message", J::s("a single simulated run did not finish within 1600 watchdog ticks (>= 40 s)")),
                        ("verif_seed", J::u(verif_seed)),
                        ("run_index", J::u(index)),
                        ("sub", J::u(index % nsubs)),
                        ("tier", J::s(if thorough { "thorough" } else { "quick" })),
                        ("tape", J::Null),
                    ]);
                    let _ = std::fs::write(&path, j.to_string_pretty());
                    println!("VIOLATION property={} replay={}", prop.id, path);
                    std::process::exit(1);
                }
            }
            }
        });
    });

    let mut agg = merged.into_inner().unwrap();
    let search_wall = t0.elapsed().as_secs_f64();

    if let Some(h) = &agg.harness {
        eprintln!("HARNESS-ERROR {}", h);
        return CheckResult { exit: 2 };
    }

    // ---- samples: re-run the three smallest non-trivial indices with sampling on
    let mut samples = Vec::new();
    agg.sample_idx.sort_unstable();
    for &index in agg.sample_idx.iter().take(3) {
        let sub = (index % nsubs) as u32;
        let tape = Tape::generate(run_seed(verif_seed, prop.id, index));
        let cfg = RunCfg { index, sub, thorough, tracing: true, want_sample: true };
        let (c, _) = run_one(prop, tape, &cfg);
        samples.push(J::obj(vec![
            ("run_index", J::u(index)),
            ("sub_batch", J::s(prop.subs.get(sub as usize).copied().unwrap_or(""))),
            ("configuration", J::s(c.sample.clone())),
            ("tape_len", J::u(c.tape.rec.len() as u64)),
            ("first_events", J::Arr(c.trace.iter().take(14).map(|e| J::s(e.clone())).collect())),
        ]));
    }

    // ---- violations: minimise, write replay files
    let mut exit = 0;
    let mut viol_json = Vec::new();
    let mut viols: Vec<_> = agg.viol.values().cloned().collect();
    viols.sort_by_key(|v| v.0);
    let _ = std::fs::create_dir_all(format!("{}/replays", out_dir()));
    for (n, (index, v, tape, sub)) in viols.iter().enumerate() {
        if n >= 6 {
            break;
        }
        let cfgm = RunCfg { index: *index, sub: *sub, thorough, tracing: false, want_sample: false };
        let min = minimise(prop, tape.clone(), &cfgm, &v.code, 20_000);
        let cfgt = RunCfg { index: *index, sub: *sub, thorough, tracing: true, want_sample: true };
        let (c, out) = run_one(prop, Tape::replay(min.clone()), &cfgt);
        let (fv, final_tape) = match out {
            Outcome::Violation(fv) if fv.code == v.code => (fv, c.tape.rec.clone()),
            _ => {
                // minimised tape does not reproduce (should not happen): fall back to the original
                let (c2, out2) = run_one(prop, Tape::replay(tape.clone()), &cfgt);
                match out2 {
                    Outcome::Violation(fv) => (fv, c2.tape.rec.clone()),
                    _ => (v.clone(), tape.clone()),
                }
            }
        };
        let (c, _) = run_one(prop, Tape::replay(final_tape.clone()), &cfgt);
        let safe_code: String = fv.code.chars().map(|ch| if ch.is_ascii_alphanumeric() || ch == '.' || ch == '_' { ch } else { '_' }).collect();
        let path = format!("{}/replays/{}-{}-{}.json", out_dir(), safe_code, verif_seed, index);
        let j = J::obj(vec![
            ("property", J::s(prop.id)),
            ("code", J::s(fv.code.clone())),
            ("key", J::s(fv.key.clone())),
            ("message", J::s(fv.msg.clone())),
            ("scenario", J::s(prop.scenario)),
            ("verif_seed", J::u(verif_seed)),
            ("run_index", J::u(*index)),
            ("sub", J::u(*sub as u64)),
            ("tier", J::s(if thorough { "thorough" } else { "quick" })),
            ("original_tape_len", J::u(tape.len() as u64)),
            ("tape", J::Arr(final_tape.iter().map(|x| J::u(*x)).collect())),
            ("configuration", J::s(c.sample.clone())),
            ("events", J::Arr(c.trace.iter().map(|e| J::s(e.clone())).collect())),
        ]);
        let _ = std::fs::write(&path, j.to_string_pretty());
        println!("  violation code={} key={} run={} tape {}->{} draws: {}", fv.code, fv.key, index, tape.len(), final_tape.len(), fv.msg);
        println!("VIOLATION property={} replay={}", prop.id, path);
        viol_json.push(J::obj(vec![
            ("code", J::s(fv.code.clone())),
            ("key", J::s(fv.key.clone())),
            ("replay", J::s(path)),
        ]));
        exit = 1;
    }

    // ---- known findings
    let mut known_json = Vec::new();
    for ((code, key), n) in &agg.known_hits {
        if let Some(k) = ctx::is_known(code, key) {
            println!("KNOWN-FINDING: property={} {} [code={} key={} hits={}]", prop.id, k.what, code, key, n);
        }
        known_json.push(J::obj(vec![("code", J::s(code.clone())), ("key", J::s(key.clone())), ("hits", J::u(*n))]));
    }

    // ---- evidence
    let wall = t0.elapsed().as_secs_f64();
    let mut faults = Vec::new();
    let mut probes = Vec::new();
    let mut other = Vec::new();
    for (k, v) in &agg.counts {
        if let Some(n) = k.strip_prefix("f:") {
            faults.push((n.to_string(), J::u(*v)));
        } else if let Some(n) = k.strip_prefix("p:") {
            probes.push((n.to_string(), J::u(*v)));
        } else {
            other.push((k.to_string(), J::u(*v)));
        }
    }
    let foreign_total: u64 = agg.foreign.values().sum();
    let mut coverage = vec![
        ("evaluations", J::u(agg.runs)),
        ("distinct_nontrivial", J::u(agg.sigs.len() as u64)),
        ("nontrivial_runs", J::u(agg.nontrivial)),
        ("rule", J::s(prop.rule)),
        ("samples", J::Arr(samples)),
        ("sub_batches", J::Arr(prop.subs.iter().map(|s| J::s(*s)).collect())),
        ("runs_per_hour", J::u((agg.runs as f64 / search_wall.max(1e-6) * 3600.0) as u64)),
        ("seeds_per_hour", J::u((agg.runs as f64 / search_wall.max(1e-6) * 3600.0) as u64)),
        ("sim_time_s", J::f(agg.sim_ns as f64 / 1e9)),
        ("library_calls", J::u(agg.steps as u64)),
        ("draws", J::u(agg.draws as u64)),
        ("faults_fired", J::Obj(faults)),
        ("probes", J::Obj(probes)),
        ("counters", J::Obj(other)),
        ("foreign_aborts", J::u(foreign_total)),
        ("foreign_abort_sites", J::Obj(agg.foreign.iter().map(|(k, v)| (k.clone(), J::u(*v))).collect())),
        ("known_findings_hit", J::Arr(known_json)),
        ("trace_digest", J::s(format!("{:016x}", agg.digest))),
        (
            "components",
            J::obj(vec![
                ("real", J::Arr(vec![J::s("ureq-proto (flow, call, body, chunk, parser, amended, holder, ext, util) from the working tree"), J::s("http"), J::s("httparse"), J::s("url")])),
                ("stub", J::Arr(vec![J::s("simulated clock"), J::s("simulated transport (arrival / send-window schedules)"), J::s("scripted origin servers + strict reference parsers"), J::s("caller loop (stand-in for ureq's run loop)"), J::s("body source, cookie jar, auth policy, connection pool")])),
            ]),
        ),
        ("exhaustive", J::Bool(false)),
    ];
    if !prop.exhaustive_note.is_empty() {
        coverage.push(("exhaustive_part", J::s(prop.exhaustive_note)));
    }
    if prop.cells_total > 0 {
        coverage.push((
            "coverage_cells",
            J::obj(vec![
                ("hit", J::u(agg.cells.len() as u64)),
                ("total", J::u(prop.cells_total as u64)),
                ("what", J::s(prop.cells_what)),
            ]),
        ));
    }
    let ev = J::obj(vec![
        ("property_id", J::s(prop.id)),
        ("tier", J::s(if thorough { "thorough" } else { "quick" })),
        ("seed", J::u(verif_seed)),
        ("level", J::s(prop.level)),
        ("coverage", J::Obj(coverage.into_iter().map(|(k, v)| (k.to_string(), v)).collect())),
        ("assumptions", J::Arr(prop.assumptions.iter().map(|s| J::s(*s)).collect())),
        ("wall_s", J::f(wall)),
        ("violations", J::u(viol_json.len() as u64)),
        ("violating_runs", J::u(agg.viol_runs)),
        ("violation_list", J::Arr(viol_json)),
    ]);
    let _ = std::fs::create_dir_all(format!("{}/evidence", out_dir()));
    let evp = format!("{}/evidence/{}.json", out_dir(), prop.id);
    if let Err(e) = std::fs::write(&evp, ev.to_string_pretty()) {
        eprintln!("HARNESS-ERROR cannot write {}: {}", evp, e);
        return CheckResult { exit: 2 };
    }
    println!(
        "hootsim: {} runs={} nontrivial={} distinct={} cells={}/{} foreign={} known_hits={} violating_runs={} wall={:.1}s digest={:016x}",
        prop.id,
        agg.runs,
        agg.nontrivial,
        agg.sigs.len(),
        agg.cells.len(),
        prop.cells_total,
        foreign_total,
        agg.known_hits.values().sum::<u64>(),
        agg.viol_runs,
        wall,
        agg.digest
    );
    // everything that must not depend on the worker count or on the process
    let mut fp = agg.digest;
    for v in [agg.runs, agg.nontrivial, agg.sigs.len() as u64, agg.cells.len() as u64, agg.sim_ns as u64, agg.steps as u64, agg.draws as u64, agg.viol_runs, foreign_total] {
        fp = hash_step(fp, v);
    }
    for (k, v) in &agg.counts {
        for b in k.bytes() {
            fp = hash_step(fp, b as u64);
        }
        fp = hash_step(fp, *v);
    }
    for ((c, k), v) in &agg.known_hits {
        for b in c.bytes().chain(k.bytes()) {
            fp = hash_step(fp, b as u64);
        }
        fp = hash_step(fp, *v);
    }
    println!("FINGERPRINT {} {:016x}", prop.id, fp);
    if foreign_total > 0 {
        println!("WARNING: {} runs ended as foreign aborts (set-up failed or another property's oracle tripped): {:?}", foreign_total, agg.foreign.iter().take(4).collect::<Vec<_>>());
    }
    if exit == 0 && agg.sigs.len() < 2 {
        eprintln!("HARNESS-ERROR fewer than 2 distinct non-trivial runs");
        return CheckResult { exit: 2 };
    }
    CheckResult { exit }
}

/// Delta debugging on the choice tape: keep shrinking while the same violation code fires.
pub fn minimise(prop: &Prop, tape: Vec<u64>, cfg: &RunCfg, code: &str, budget: usize) -> Vec<u64> {
    let mut cur = tape;
    let mut used = 0usize;
    let mut try_tape = |cand: &Vec<u64>, used: &mut usize| -> Option<Vec<u64>> {
        *used += 1;
        let (c, out) = run_one(prop, Tape::replay(cand.clone()), cfg);
        match out {
            Outcome::Violation(v) if v.code == code => Some(c.tape.rec.clone()),
            _ => None,
        }
    };
    // normalise first
    if let Some(n) = try_tape(&cur, &mut used) {
        cur = n;
    } else {
        return cur;
    }
    let t_start = Instant::now();
    // first pass: zero large spans (keeps the alignment of all later draws)
    {
        let mut sp = (cur.len() / 2).max(1).next_power_of_two();
        while sp >= 1 && used < budget {
            let mut i = 0;
            while i < cur.len() {
                let end = (i + sp).min(cur.len());
                if cur[i..end].iter().any(|v| *v != 0) {
                    let mut cand = cur.clone();
                    for v in cand[i..end].iter_mut() {
                        *v = 0;
                    }
                    if let Some(n) = try_tape(&cand, &mut used) {
                        cur = n;
                    }
                }
                i += sp;
            }
            if sp == 1 {
                break;
            }
            sp /= 2;
        }
    }
    loop {
        let before = (cur.len(), cur.iter().sum::<u64>());
        if t_start.elapsed().as_secs() > 25 {
            break;
        }
        // delete spans, from half the tape down to single draws
        let mut spans: Vec<usize> = Vec::new();
        let mut sp = (cur.len() / 2).max(1).next_power_of_two();
        while sp >= 1 {
            spans.push(sp);
            if sp == 1 {
                break;
            }
            sp /= 2;
        }
        for span in spans {
            let mut i = 0;
            while i + span <= cur.len() && used < budget {
                let mut cand = cur.clone();
                cand.drain(i..i + span);
                if let Some(n) = try_tape(&cand, &mut used) {
                    if n.len() < cur.len() || n.iter().sum::<u64>() < cur.iter().sum::<u64>() {
                        cur = n;
                        continue;
                    }
                }
                i += span;
            }
        }
        // zero spans
        for span in [8usize, 4, 2, 1] {
            let mut i = 0;
            while i + span <= cur.len() && used < budget {
                if cur[i..i + span].iter().any(|v| *v != 0) {
                    let mut cand = cur.clone();
                    for v in cand[i..i + span].iter_mut() {
                        *v = 0;
                    }
                    if let Some(n) = try_tape(&cand, &mut used) {
                        if n.len() <= cur.len() {
                            cur = n;
                        }
                    }
                }
                i += span;
            }
        }
        // lower single values
        let mut i = 0;
        while i < cur.len() && used < budget {
            let v = cur[i];
            if v > 0 {
                for nv in [v / 2, v - 1] {
                    if nv >= v {
                        continue;
                    }
                    let mut cand = cur.clone();
                    cand[i] = nv;
                    if let Some(n) = try_tape(&cand, &mut used) {
                        if n.len() <= cur.len() {
                            cur = n;
                            break;
                        }
                    }
                }
            }
            i += 1;
        }
        let after = (cur.len(), cur.iter().sum::<u64>());
        if after >= before || used >= budget {
            break;
        }
    }
    cur
}

/// Re-execute a replay file in this (fresh) process.
pub fn replay_file(props: &[Prop], path: &str) -> i32 {
    let text = match std::fs::read_to_string(path) {
        Ok(t) => t,
        Err(e) => {
            eprintln!("HARNESS-ERROR cannot read {}: {}", path, e);
            return 2;
        }
    };
    let j = match crate::json::parse(&text) {
        Ok(j) => j,
        Err(e) => {
            eprintln!("HARNESS-ERROR bad replay file {}: {}", path, e);
            return 2;
        }
    };
    let pid = j.get("property").and_then(|v| v.as_str()).unwrap_or("");
    let prop = match props.iter().find(|p| p.id == pid) {
        Some(p) => p,
        None => {
            eprintln!("HARNESS-ERROR unknown property in replay file: {}", pid);
            return 2;
        }
    };
    let index = j.get("run_index").and_then(|v| v.as_u64()).unwrap_or(0);
    let sub = j.get("sub").and_then(|v| v.as_u64()).unwrap_or(0) as u32;
    let seed = j.get("verif_seed").and_then(|v| v.as_u64()).unwrap_or(0);
    let thorough = j.get("tier").and_then(|v| v.as_str()) == Some("thorough");
    let want_code = j.get("code").and_then(|v| v.as_str()).unwrap_or("").to_string();
    let tape = match j.get("tape").and_then(|v| v.as_arr()) {
        Some(a) => Tape::replay(a.iter().map(|x| x.as_u64().unwrap_or(0)).collect()),
        None => Tape::generate(run_seed(seed, prop.id, index)),
    };
    let cfg = RunCfg { index, sub, thorough, tracing: true, want_sample: true };
    // a replayed hang hangs again: give it the same tick-based watchdog as a batch
    {
        let pid = prop.id.to_string();
        let path = path.to_string();
        std::thread::spawn(move || {
            for _ in 0..1600 {
                std::thread::sleep(std::time::Duration::from_millis(25));
            }
            println!("the replayed run did not finish within 1600 watchdog ticks (>= 40 s): hang reproduced");
            println!("VIOLATION property={} replay={}", pid, path);
            std::process::exit(1);
        });
    }
    let (c, out) = run_one(prop, tape, &cfg);
    println!("replay: property={} run_index={} sub={} tape_len={}", prop.id, index, sub, c.tape.rec.len());
    println!("configuration: {}", c.sample);
    for e in &c.trace {
        println!("  {}", e);
    }
    for (code, key) in &c.known_hits {
        if let Some(k) = ctx::is_known(code, key) {
            println!("KNOWN-FINDING: property={} {} [code={} key={}]", prop.id, k.what, code, key);
        }
    }
    match out {
        Outcome::Violation(v) => {
            println!("violation code={} key={}: {}", v.code, v.key, v.msg);
            if !want_code.is_empty() && v.code != want_code {
                println!("note: the file recorded code={} - a different violation fired", want_code);
            }
            println!("VIOLATION property={} replay={}", prop.id, path);
            1
        }
        Outcome::Ok => {
            println!("REPLAY-CLEAN property={} (the recorded violation {} does not occur on this tree)", prop.id, want_code);
            0
        }
        Outcome::Foreign(s) => {
            println!("REPLAY-FOREIGN-ABORT {}", s);
            0
        }
        Outcome::Harness(m) => {
            eprintln!("HARNESS-ERROR {}", m);
            2
        }
    }
}
