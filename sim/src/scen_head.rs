//! Scenario family `recvhead` / `taps`: C05 (response head on every arrival prefix) and C20
//! (standalone parsers and their limits).
//!
//! Nondeterminism explored: how many bytes of the server's head have arrived when the caller
//! looks (TCP segmentation), including re-polls with an unchanged window.

use ureq_proto::client::call::state as cs;
use ureq_proto::client::call::Call;
use ureq_proto::client::flow::state as fs;
use ureq_proto::client::flow::{Flow, SendRequestResult};
use ureq_proto::http::{Request, Response, Version};
use ureq_proto::parser::{try_parse_partial_response, try_parse_request, try_parse_response};
use ureq_proto::Error;

use crate::ctx::{lib, set_observed, Ctx, R};
use crate::drive::{build_request, err_name};
use crate::gen::{gen_arrival, gen_field, gen_field_count, gen_reason, gen_status, gen_token_name, gen_value, Field, RespHead};
use crate::json::show_bytes;
use crate::{ensure, fail};

pub enum HeadRx {
    /// still awaiting 100: the same growing prefixes are first shown to try_read_100 until it
    /// has decided (a non-100 head is a refusal), then the flow moves on to RecvResponse
    Awaiting(Option<Flow<(), fs::Await100>>),
    Flow(Flow<(), fs::RecvResponse>),
    Call(Call<cs::RecvResponse, ()>),
    Parser,
}

/// Reach the head-receiving state through the real API. No draws in here.
pub fn make_rx(kind: u8, method: &str) -> Result<HeadRx, String> {
    let req = build_request(method, 11, "http://a.test/x", &[]);
    let mut buf = [0u8; 512];
    match kind {
        0 => {
            let f = lib("Flow::new", || Flow::new(req)).map_err(|e| e.to_string())?;
            let mut f = lib("Flow<Prepare>::proceed", || f.proceed());
            lib("Flow<SendRequest>::write", || f.write(&mut buf)).map_err(|e| e.to_string())?;
            match lib("Flow<SendRequest>::proceed", || f.proceed()) {
                Ok(Some(SendRequestResult::RecvResponse(r))) => Ok(HeadRx::Flow(r)),
                _ => Err("no RecvResponse".into()),
            }
        }
        1 => {
            let mut c = lib("Call::without_body", || Call::without_body(req)).map_err(|e| e.to_string())?;
            lib("Call<WithoutBody>::write", || c.write(&mut buf)).map_err(|e| e.to_string())?;
            let r = lib("Call::into_receive", || c.into_receive()).map_err(|e| e.to_string())?;
            Ok(HeadRx::Call(r))
        }
        3 => {
            let req = build_request("POST", 11, "http://a.test/x", &[("expect".to_string(), b"100-continue".to_vec())]);
            let f = lib("Flow::new", || Flow::new(req)).map_err(|e| e.to_string())?;
            let mut f = lib("Flow<Prepare>::proceed", || f.proceed());
            lib("Flow<SendRequest>::write", || f.write(&mut buf)).map_err(|e| e.to_string())?;
            match lib("Flow<SendRequest>::proceed", || f.proceed()) {
                Ok(Some(SendRequestResult::Await100(a))) => Ok(HeadRx::Awaiting(Some(a))),
                _ => Err("no Await100".into()),
            }
        }
        _ => Ok(HeadRx::Parser),
    }
}

impl HeadRx {
    pub fn try_response(&mut self, ctx: &mut Ctx, w: &[u8]) -> Result<(usize, Option<Response<()>>), Error> {
        ctx.steps += 1;
        if let HeadRx::Awaiting(slot) = self {
            // the caller is still waiting for a 100: look with try_read_100 first
            let mut a = slot.take().expect("awaiting flow");
            let r = lib("Flow<Await100>::try_read_100", || a.try_read_100(w));
            match r {
                Ok(0) if lib("Flow<Await100>::can_keep_await_100", || a.can_keep_await_100()) => {
                    *slot = Some(a);
                    return Ok((0, None));
                }
                Ok(0) => match lib("Flow<Await100>::proceed", || a.proceed()) {
                    Ok(ureq_proto::client::flow::Await100Result::RecvResponse(f)) => *self = HeadRx::Flow(f),
                    Ok(_) => return Err(Error::HttpParseFail("harness: a non-100 head did not lead to RecvResponse".into())),
                    Err(e) => return Err(e),
                },
                Ok(n) => return Err(Error::HttpParseFail(format!("harness: try_read_100 consumed {} bytes of a non-100 head", n))),
                Err(e) => return Err(e),
            }
        }
        match self {
            HeadRx::Awaiting(_) => unreachable!(),
            HeadRx::Flow(f) => lib("Flow<RecvResponse>::try_response", || f.try_response(w)),
            HeadRx::Call(c) => lib("Call<RecvResponse>::try_response", || c.try_response(w)).map(|o| match o {
                Some((n, r)) => (n, Some(r)),
                None => (0, None),
            }),
            HeadRx::Parser => lib("parser::try_parse_response", || try_parse_response::<128>(w)).map(|o| match o {
                Some((n, r)) => (n, Some(r)),
                None => (0, None),
            }),
        }
    }
    pub fn can_proceed(&self) -> Option<bool> {
        match self {
            HeadRx::Awaiting(_) => None,
            HeadRx::Flow(f) => Some(lib("Flow<RecvResponse>::can_proceed", || f.can_proceed())),
            HeadRx::Call(c) => Some(lib("Call<RecvResponse>::is_finished", || c.is_finished())),
            HeadRx::Parser => None,
        }
    }
}

/// Compare a parsed response with the ground truth head.
pub fn check_response(r: &Response<()>, h: &RespHead) -> Result<(), String> {
    if r.status().as_u16() != h.status {
        return Err(format!("status {} != {}", r.status().as_u16(), h.status));
    }
    let want_v = if h.http11 { Version::HTTP_11 } else { Version::HTTP_10 };
    if r.version() != want_v {
        return Err(format!("version {:?} != {:?}", r.version(), want_v));
    }
    if r.headers().len() != h.fields.len() {
        return Err(format!("{} header fields returned, head has {}", r.headers().len(), h.fields.len()));
    }
    let mut seen: Vec<String> = Vec::new();
    for f in &h.fields {
        let ln = f.lname();
        if seen.contains(&ln) {
            continue;
        }
        seen.push(ln.clone());
        let want = h.get_all(&ln);
        let got: Vec<&[u8]> = r.headers().get_all(ln.as_str()).iter().map(|v| v.as_bytes()).collect();
        if want != got {
            return Err(format!("field {:?}: values differ: got {:?}, head has {:?}", ln, got.iter().map(|v| show_bytes(v)).collect::<Vec<_>>(), want.iter().map(|v| show_bytes(v)).collect::<Vec<_>>()));
        }
    }
    Ok(())
}

/// A well-formed response head for C05/C20 (valid framing fields only).
pub fn gen_resp_head(ctx: &mut Ctx, max_generic: usize, allow_over: bool) -> RespHead {
    let status = gen_status(ctx);
    let http11 = ctx.chance(3, 4);
    let reason = gen_reason(ctx);
    let over = allow_over && ctx.chance(1, 40);
    let n = if over { ctx.range(129, 140) } else { gen_field_count(ctx, max_generic) };
    let mut fields: Vec<Field> = (0..n).map(|_| gen_field(ctx)).collect();
    if !over {
        // special fields, inserted at drawn positions as long as the limit allows
        let mut extra: Vec<Field> = Vec::new();
        match ctx.draw(4) {
            0 => {
                let z = if ctx.chance(1, 5) { "0".repeat(ctx.range(1, 30)) } else { String::new() };
                extra.push(Field::plain("Content-Length", &format!("{}{}", z, ctx.range(0, 5000))))
            }
            1 => extra.push(Field::plain("Transfer-Encoding", "chunked")),
            _ => {}
        }
        if ((300..400).contains(&status) && ctx.chance(5, 6)) || ctx.chance(1, 10) {
            // the head parser hands the value out as it is: whether it can be resolved is a later
            // question (C14), so unresolvable values are as good as any here
            let loc = *ctx.pick(&["/next", "http://b.test/p?q=1", "../up", "//c.test/", "http://", "https://[::1/x", "http://a b/", "urn:isbn:0451450523"]);
            extra.push(Field::plain("Location", loc));
            if ctx.chance(1, 4) {
                // Location may be repeated like any other field
                extra.push(Field::plain("location", *ctx.pick(&["/other", "http://c.test/", ""])));
            }
            if ctx.flip() {
                extra.push(Field::plain("Set-Cookie", "sid=1; Path=/"));
            }
        }
        match ctx.draw(6) {
            0 => extra.push(Field::plain("Connection", "close")),
            1 => extra.push(Field::plain("connection", "keep-alive")),
            _ => {}
        }
        if ctx.chance(1, 5) {
            // repeated name with values in order
            let name = gen_token_name(ctx);
            let k = ctx.range(2, 4);
            for _ in 0..k {
                let mut f = gen_field(ctx);
                f.name = if ctx.flip() { name.to_ascii_uppercase() } else { name.clone() };
                extra.push(f);
            }
        }
        if ctx.chance(1, 150) {
            // a legal head of more than 64 KiB
            let n = ctx.range(65_400, 66_000);
            extra.push(Field { name: "X-Big".into(), ows_before: b" ".to_vec(), value: vec![b'v'; n], ows_after: Vec::new() });
        }
        for f in extra {
            if fields.len() >= 128 {
                break;
            }
            let at = ctx.range(0, fields.len());
            fields.insert(at, f);
        }
    }
    RespHead { http11, status, reason, fields }
}

fn gen_tail(ctx: &mut Ctx) -> Vec<u8> {
    match ctx.draw(5) {
        0 => Vec::new(),
        1 => b"HTTP/1.1 200 OK\r\nContent-Length: 0\r\n\r\n".to_vec(),
        2 => b"5\r\nhello\r\n0\r\n\r\n".to_vec(),
        3 => {
            let n = ctx.range(1, 40);
            (0..n).map(|_| ctx.draw(256) as u8).collect()
        }
        _ => b"\r\n\r\nbody bytes".to_vec(),
    }
}

// ============================================================================================ C05

pub fn c05(ctx: &mut Ctx) -> R {
    set_observed(false);
    let kind = ctx.draw(4) as u8;
    let method = if kind == 3 { "POST" } else { *ctx.pick(&["GET", "GET", "HEAD", "DELETE", "OPTIONS"]) };
    let mut rx = match make_rx(kind, method) {
        Ok(v) => v,
        Err(e) => fail!("FOREIGN", "", "cannot reach RecvResponse: {}", e),
    };
    set_observed(true);
    let h = gen_resp_head(ctx, 128, true);
    let over = h.fields.len() > 128;
    let rd = h.render();
    let hl = rd.bytes.len();
    let tail = gen_tail(ctx);
    let mut stream = rd.bytes.clone();
    stream.extend_from_slice(&tail);
    // where a complete Location line ends (ground truth), if any
    let loc_end: Option<usize> = h.fields.iter().position(|f| f.lname() == "location").map(|i| rd.line_ends[i + 1]);
    let is_3xx = (300..400).contains(&h.status);

    // arrival schedule
    let full_sweep = ctx.tier_thorough && hl <= 400 && ctx.chance(1, 4) || (!ctx.tier_thorough && hl <= 120 && ctx.chance(1, 8));
    let mut marks: Vec<usize> = rd.line_ends.clone();
    marks.push(hl);
    if let Some(le) = loc_end {
        marks.push(le);
        marks.push(le);
    }
    let final_len = hl + if tail.is_empty() { 0 } else { ctx.range(0, tail.len()) };
    let (mut sched, mode) = if full_sweep {
        ((0..=hl).collect::<Vec<_>>(), crate::gen::ArrMode::Trickle)
    } else {
        gen_arrival(ctx, hl, &marks, 300)
    };
    if *sched.last().unwrap() < final_len {
        sched.push(final_len);
    }
    ctx.sample(|| format!("api={} method={} head: HTTP/1.{} {} with {} fields ({} bytes), tail {} bytes, arrival {:?} with {} cuts{}", match kind { 0 => "Flow", 1 => "Call", 3 => "Flow after a refused Expect", _ => "parser" }, method, h.http11 as u8, h.status, h.fields.len(), hl, tail.len(), mode, sched.len(), if full_sweep { " (every prefix)" } else { "" }));
    match mode {
        crate::gen::ArrMode::Trickle => ctx.count("f:seg_trickle"),
        crate::gen::ArrMode::Structural => ctx.count("f:seg_cut_structural"),
        crate::gen::ArrMode::Random | crate::gen::ArrMode::Mixed => ctx.count("f:seg_cut_random"),
        _ => {}
    }

    let mut polls = 0;
    let mut done = false;
    for &p in &sched {
        let repoll = ctx.chance(1, 5);
        let times = if repoll { 2 } else { 1 };
        for t in 0..times {
            if done {
                break;
            }
            if t == 1 {
                ctx.count("f:stall_repoll");
            }
            polls += 1;
            let w = &stream[..p];
            let r = rx.try_response(ctx, w);
            ctx.ev(|| format!("try_response(window={} of head {}) -> {}", p, hl, match &r { Ok((n, Some(x))) => format!("Ok(({}, Some(status {})))", n, x.status().as_u16()), Ok((n, None)) => format!("Ok(({}, None))", n), Err(e) => format!("Err({})", err_name(e)) }));
            // position class for the abstract trace: which line the cut is in, relative to CRLF
            let line_idx = rd.line_ends.iter().position(|e| p < *e).unwrap_or(rd.line_ends.len());
            let rel = rd.line_ends.get(line_idx).map(|e| (e - p).min(3)).unwrap_or(0);
            ctx.sig3(line_idx.min(6) as u64 * 8 + rel as u64, (h.status / 100) as u64 * 4 + over as u64, match &r { Ok((_, Some(_))) => 2, Ok(_) => 1, Err(_) => 0 });
            if p < hl {
                // ------------------------------------------------------------ strict prefix
                match r {
                    Ok((n, None)) => {
                        ensure!(n == 0, "C05.consumed_on_prefix", "strict prefix ({} of {} bytes) consumed {} bytes", p, hl, n);
                        if let Some(cp) = rx.can_proceed() {
                            ensure!(!cp, "C05.ready_on_prefix", "can_proceed() is true after a strict prefix ({} of {})", p, hl);
                        }
                    }
                    Ok((n, Some(resp))) => {
                        // the hack's fingerprint: 'connection: close' on the returned response
                        // (synthetic, or already in the window) and the whole window consumed
                        let synthetic_close = resp.headers().get_all("connection").iter().any(|v| v.as_bytes() == b"close");
                        let d6 = is_3xx && loc_end.map(|le| le <= p).unwrap_or(false) && synthetic_close && n == p;
                        let key = if d6 { "partial-3xx-after-complete-location" } else { "" };
                        let known = ctx.report("C05.response_on_prefix", key, || format!("a response (status {}) was returned for a strict prefix of the head ({} of {} bytes), consumed {}: {:?}", resp.status().as_u16(), p, hl, n, show_bytes(&w[w.len().saturating_sub(60)..])))?;
                        if known {
                            // start over with a fresh receiver and go on with the later prefixes
                            set_observed(false);
                            rx = match make_rx(kind, method) {
                                Ok(v) => v,
                                Err(e) => fail!("FOREIGN", "", "cannot reach RecvResponse: {}", e),
                            };
                            set_observed(true);
                        }
                    }
                    Err(e) => {
                        if over {
                            // a head beyond the field limit may be refused as soon as that is visible
                            ctx.count("p:over_limit_refused_early");
                        } else {
                            fail!("C05.error_on_prefix", "", "strict prefix ({} of {} bytes) gave an error instead of need-more: {} [{:?}]", p, hl, e, show_bytes(w));
                        }
                    }
                }
            } else {
                // ------------------------------------------------------------ complete head (+ tail)
                match r {
                    Ok((n, Some(resp))) => {
                        if over {
                            fail!("C05.over_limit_accepted", "", "a head with {} fields was accepted", h.fields.len());
                        }
                        ensure!(n == hl, "C05.wrong_consumed", "complete head of {} bytes (window {}) consumed {}", hl, p, n);
                        if let Err(e) = check_response(&resp, &h) {
                            fail!("C05.wrong_response", "", "{}", e);
                        }
                        if let Some(cp) = rx.can_proceed() {
                            ensure!(cp, "C05.not_ready_after_head", "can_proceed() is false after the complete head");
                        }
                        if h.fields.len() >= 127 {
                            ctx.count("p:at_field_limit");
                        }
                        done = true;
                    }
                    Ok((n, None)) => {
                        if over {
                            fail!("C05.over_limit_not_rejected", "", "a complete head with {} fields gave need-more (consumed {})", h.fields.len(), n);
                        }
                        fail!("C05.incomplete_on_full_head", "", "complete head ({} bytes, window {}) gave need-more (consumed {})", hl, p, n);
                    }
                    Err(e) => {
                        if over {
                            ctx.count("p:over_limit_rejected");
                            done = true;
                        } else {
                            fail!("C05.error_on_full_head", "", "complete well-formed head gave an error: {} [{:?}]", e, show_bytes(&stream[..hl.min(200)]));
                        }
                    }
                }
            }
        }
    }
    if is_3xx && loc_end.is_some() {
        ctx.count("p:3xx_with_location");
    }
    ctx.nontrivial = polls >= 2;
    Ok(())
}

// ============================================================================================ C20

fn parse_resp_n(n: usize, b: &[u8]) -> Result<Option<(usize, Response<()>)>, Error> {
    lib("parser::try_parse_response", || match n {
        0 => try_parse_response::<0>(b),
        1 => try_parse_response::<1>(b),
        4 => try_parse_response::<4>(b),
        _ => try_parse_response::<128>(b),
    })
}

fn parse_partial_n(n: usize, b: &[u8]) -> Result<Option<Response<()>>, Error> {
    lib("parser::try_parse_partial_response", || match n {
        0 => try_parse_partial_response::<0>(b),
        1 => try_parse_partial_response::<1>(b),
        4 => try_parse_partial_response::<4>(b),
        _ => try_parse_partial_response::<128>(b),
    })
}

fn parse_req_n(n: usize, b: &[u8]) -> Result<Option<(usize, Request<()>)>, Error> {
    lib("parser::try_parse_request", || match n {
        0 => try_parse_request::<0>(b),
        1 => try_parse_request::<1>(b),
        4 => try_parse_request::<4>(b),
        _ => try_parse_request::<128>(b),
    })
}

fn maybe_giant(ctx: &mut Ctx, v: &mut Vec<Field>) {
    if !v.is_empty() && ctx.chance(1, 120) {
        let i = ctx.draw_usize(v.len());
        v[i].value = vec![b'g'; ctx.range(65_300, 66_000)];
    }
}

fn gen_fields_for_limit(ctx: &mut Ctx, n: usize) -> Vec<Field> {
    let count = match ctx.draw(6) {
        0 => n,
        1 => n + 1,
        2 => n + 2,
        3 => n.saturating_sub(1),
        _ => ctx.range(0, n + 2),
    };
    (0..count).map(|_| gen_field(ctx)).collect()
}

pub fn c20(ctx: &mut Ctx) -> R {
    let limit = *ctx.pick(&[0usize, 1, 4, 128]);
    let is_request = ctx.sub == 1;
    let mut fields = gen_fields_for_limit(ctx, limit);
    maybe_giant(ctx, &mut fields);
    let over = fields.len() > limit;
    let tail = gen_tail(ctx);
    // ---- build the head
    let (bytes, line_ends, method, status, http11): (Vec<u8>, Vec<usize>, String, u16, bool);
    if is_request {
        method = match ctx.draw(6) {
            0 => "PURGE".to_string(),
            1 => "M-SEARCH".to_string(),
            2 => "X".to_string(),
            _ => ctx.pick(&crate::refs::METHODS).to_string(),
        };
        let target = *ctx.pick(&["/", "/a/b?x=1&y=2", "*", "http://a.test:8080/p", "a.test:443", "/%7Euser/file.txt", "urn:example:animal:ferret:nose", "mailto:x@y.test", "/;p=1?q", "//double/slash"]);
        http11 = ctx.flip();
        status = 0;
        let mut b = Vec::new();
        b.extend_from_slice(format!("{} {} HTTP/1.{}\r\n", method, target, http11 as u8).as_bytes());
        let mut le = vec![b.len()];
        for f in &fields {
            f.render(&mut b);
            le.push(b.len());
        }
        b.extend_from_slice(b"\r\n");
        bytes = b;
        line_ends = le;
    } else {
        // a redirect with a Location among its fields (same field count, so the limit case stands)
        let with_loc = !fields.is_empty() && ctx.chance(1, 3);
        if with_loc {
            let i = ctx.draw_usize(fields.len());
            fields[i] = Field::plain(*ctx.pick(&["Location", "location"]), *ctx.pick(&["/next", "http://b.test/p?q=1", "../up"]));
            ctx.count("p:response_with_location");
        }
        let st = if with_loc && ctx.chance(3, 4) { *ctx.pick(&[301u16, 302, 303, 307, 308]) } else { gen_status(ctx) };
        let h = RespHead { http11: ctx.flip(), status: st, reason: gen_reason(ctx), fields: fields.clone() };
        let rd = h.render();
        bytes = rd.bytes;
        line_ends = rd.line_ends;
        method = String::new();
        status = h.status;
        http11 = h.http11;
    }
    let hl = bytes.len();
    let mut stream = bytes.clone();
    stream.extend_from_slice(&tail);
    let truth = RespHead { http11, status, reason: Vec::new(), fields: fields.clone() };

    let full_sweep = hl <= 300 && (ctx.tier_thorough || ctx.chance(1, 3));
    let mut sched: Vec<usize> = if full_sweep {
        (0..=hl).collect()
    } else {
        let mut marks = line_ends.clone();
        marks.push(hl);
        gen_arrival(ctx, hl, &marks, 200).0
    };
    if !tail.is_empty() {
        sched.push(hl + ctx.range(1, tail.len()));
    }
    ctx.sample(|| format!("{} head, limit N={}, {} fields ({} bytes), tail {} bytes, {} prefixes{}", if is_request { format!("request {}", method) } else { format!("response {}", status) }, limit, fields.len(), hl, tail.len(), sched.len(), if full_sweep { " (every prefix)" } else { "" }));
    if full_sweep {
        ctx.count("f:seg_trickle");
    } else {
        ctx.count("f:seg_cut_structural");
    }

    for &p in &sched {
        let w = &stream[..p];
        ctx.steps += 1;
        let complete = p >= hl;
        // ------------------------------------------------ complete parsers
        let res: Result<Option<(usize, u16, Version, Vec<(String, Vec<u8>)>, String)>, Error> = if is_request {
            parse_req_n(limit, w).map(|o| o.map(|(n, r)| (n, 0u16, r.version(), hdrs(r.headers()), r.method().as_str().to_string())))
        } else {
            parse_resp_n(limit, w).map(|o| o.map(|(n, r)| (n, r.status().as_u16(), r.version(), hdrs(r.headers()), String::new())))
        };
        ctx.ev(|| format!("parse::<{}>(window={} of head {}) -> {}", limit, p, hl, match &res { Ok(Some(v)) => format!("complete, used {}", v.0), Ok(None) => "incomplete".to_string(), Err(e) => format!("Err({})", err_name(e)) }));
        ctx.sig3(limit as u64 * 4 + is_request as u64 * 2 + over as u64, (complete as u64) * 8 + (fields.len().min(7)) as u64, match &res { Ok(Some(_)) => 2, Ok(None) => 1, Err(_) => 0 });
        match (&res, complete, over) {
            (Ok(None), false, _) => {}
            (Err(Error::HttpParseTooManyHeaders), _, true) => {
                ctx.count("p:too_many_headers");
            }
            (Ok(Some(v)), true, false) => {
                ensure!(v.0 == hl, "C20.wrong_length", "head of {} bytes reported as {} bytes", hl, v.0);
                if is_request {
                    ensure!(v.4 == method, "C20.wrong_method", "method {:?} != {:?}", v.4, method);
                } else {
                    ensure!(v.1 == status, "C20.wrong_status", "status {} != {}", v.1, status);
                }
                let want_v = if http11 { Version::HTTP_11 } else { Version::HTTP_10 };
                ensure!(v.2 == want_v, "C20.wrong_version", "version {:?} != {:?}", v.2, want_v);
                if let Err(e) = check_fields(&v.3, &truth) {
                    fail!("C20.wrong_fields", "", "{}", e);
                }
            }
            (Ok(Some(_)), false, _) => fail!("C20.complete_on_prefix", "", "strict prefix ({} of {}) parsed as a complete head", p, hl),
            (Ok(Some(_)), true, true) => fail!("C20.over_limit_accepted", "", "head with {} fields accepted with limit {}", fields.len(), limit),
            (Ok(None), true, true) => fail!("C20.over_limit_incomplete", "", "complete head with {} fields (limit {}) reported incomplete instead of too-many-headers", fields.len(), limit),
            (Ok(None), true, false) => fail!("C20.incomplete_on_full_head", "", "complete head ({} bytes, {} fields, limit {}) reported incomplete", hl, fields.len(), limit),
            (Err(e), _, false) => fail!("C20.error_within_limit", if complete { "complete" } else { "prefix" }, "head with {} fields within limit {} (window {} of {}) gave an error: {}", fields.len(), limit, p, hl, e),
            (Err(e), _, true) => fail!("C20.wrong_error_over_limit", "", "head with {} fields over limit {} gave {} instead of too-many-headers", fields.len(), limit, e),
        }
        // ------------------------------------------------ partial response parser
        if !is_request {
            let pr = parse_partial_n(limit, w);
            match pr {
                Ok(None) => {}
                Ok(Some(r)) => {
                    ensure!(r.status().as_u16() == status, "C20.partial_wrong_status", "partial parser status {} != {}", r.status().as_u16(), status);
                    // every reported field must be completely present in the window
                    let avail: Vec<(String, Vec<u8>)> = fields.iter().enumerate().filter(|(i, _)| line_ends[i + 1] <= p).map(|(_, f)| (f.lname(), f.value.clone())).collect();
                    let mut used = vec![false; avail.len()];
                    for (n, v) in hdrs(r.headers()) {
                        let mut ok = false;
                        for (i, a) in avail.iter().enumerate() {
                            if !used[i] && a.0 == n && a.1 == v {
                                used[i] = true;
                                ok = true;
                                break;
                            }
                        }
                        if !ok {
                            fail!("C20.partial_phantom_field", "", "partial parser reported field {:?}: {:?} which is not completely present in the first {} bytes", n, show_bytes(&v), p);
                        }
                    }
                    ctx.count("p:partial_some");
                }
                Err(e) => {
                    if !over {
                        fail!("C20.partial_error_within_limit", "", "partial parser failed on a prefix ({} of {}) of a head with {} fields within limit {}: {}", p, hl, fields.len(), limit, e);
                    }
                }
            }
        }
    }
    ctx.nontrivial = sched.len() >= 2;
    Ok(())
}

fn hdrs(h: &ureq_proto::http::HeaderMap) -> Vec<(String, Vec<u8>)> {
    h.iter().map(|(k, v)| (k.as_str().to_string(), v.as_bytes().to_vec())).collect()
}

fn check_fields(got: &[(String, Vec<u8>)], truth: &RespHead) -> Result<(), String> {
    if got.len() != truth.fields.len() {
        return Err(format!("{} fields returned, head has {}", got.len(), truth.fields.len()));
    }
    let mut seen: Vec<String> = Vec::new();
    for f in &truth.fields {
        let ln = f.lname();
        if seen.contains(&ln) {
            continue;
        }
        seen.push(ln.clone());
        let want = truth.get_all(&ln);
        let g: Vec<&[u8]> = got.iter().filter(|(n, _)| *n == ln).map(|(_, v)| v.as_slice()).collect();
        if want != g {
            return Err(format!("field {:?}: values differ", ln));
        }
    }
    Ok(())
}

#[allow(dead_code)]
fn _unused(ctx: &mut Ctx) {
    let _ = gen_value(ctx);
}
