//! The simulated world for whole exchanges: a discrete-event loop with a simulated clock, a
//! transport with in-order segment delivery in both directions, a scripted origin server that
//! reacts to what it has received, the await-100 timer, and the client driver (the stand-in for
//! ureq's run loop) that makes one real API call per wake-up.
//!
//! Every delay, segment boundary, buffer size, spurious wake-up and query is drawn from the
//! run's choice tape. The canonical policy draws nothing (one call per message, 64 KiB buffers).

use std::cmp::Reverse;
use std::collections::BinaryHeap;

use ureq_proto::client::flow::state as fs;
use ureq_proto::client::flow::Flow;
use ureq_proto::http::Response;
use ureq_proto::{BodyMode, Error};

use crate::ctx::{lib, Ctx, R};
use crate::drive::{err_name, from_await100, from_recv_body, from_recv_response, from_send_request, FlowSt};
use crate::refs::{dechunk_strict, parse_request_head};

// ------------------------------------------------------------------------------------ server

#[derive(Clone, Copy, Debug, PartialEq, Eq)]
pub enum Trigger {
    /// sent regardless of what the client does (fixed server byte stream)
    AtStart,
    /// sent once the complete request head has reached the server
    AfterRequestHead,
    /// sent once the complete request (head and body) has reached the server
    AfterRequest,
}

#[derive(Clone, Debug)]
pub struct ServerMsg {
    pub bytes: Vec<u8>,
    pub trigger: Trigger,
    /// server think time before the first byte leaves
    pub think_ns: u64,
    /// relative cut points (increasing, last == bytes.len()); empty = one segment
    pub cuts: Vec<usize>,
}

#[derive(Clone, Debug, Default)]
pub struct ServerPlan {
    pub msgs: Vec<ServerMsg>,
    /// the peer closes the connection after its last byte (EOF becomes visible to the client)
    pub close_after: bool,
}

// ------------------------------------------------------------------------------------ policy

#[derive(Clone, Copy, Debug, PartialEq, Eq)]
pub enum Sz {
    Large,
    Tiny,
    Random,
    Mixed,
}

#[derive(Clone, Copy, Debug, PartialEq, Eq)]
pub enum AwaitPolicy {
    /// look at every arrival until the library has decided (no timer)
    WaitDecision,
    /// proceed at once without looking
    GiveUpAtOnce,
    /// real race: look at arrivals, give up when the simulated timer fires
    Timer(u64),
}

#[derive(Clone, Debug)]
pub struct Policy {
    pub canonical: bool,
    pub head_out: Sz,
    pub body_out: Sz,
    pub body_piece: Sz,
    pub read_out: Sz,
    pub await_policy: AwaitPolicy,
    pub queries: bool,
    pub stop_boundary: bool,
    pub toggle_stop: bool,
    pub spurious: bool,
    /// the caller does not consult can_keep_await_100(): it keeps looking at every arrival
    /// until its timer fires (bounded)
    pub poll_past_decision: bool,
    /// the caller knows about interim responses: after a delivered 1xx head (102..199) it keeps
    /// polling try_response for the final head instead of advancing (never drawn; set by scenarios)
    pub skip_interim: bool,
    /// maximum client think time between steps
    pub think_ns: u64,
    /// maximum per-segment latency
    pub lat_ns: u64,
}

impl Policy {
    pub fn canonical(await_policy: AwaitPolicy) -> Policy {
        Policy {
            canonical: true,
            head_out: Sz::Large,
            body_out: Sz::Large,
            body_piece: Sz::Large,
            read_out: Sz::Large,
            await_policy,
            queries: false,
            stop_boundary: false,
            toggle_stop: false,
            spurious: false,
            poll_past_decision: false,
            skip_interim: false,
            think_ns: 0,
            lat_ns: 0,
        }
    }

    pub fn draw(ctx: &mut Ctx, await_policy: AwaitPolicy) -> Policy {
        let sz = |ctx: &mut Ctx| match ctx.draw(5) {
            0 | 1 => Sz::Large,
            2 => Sz::Tiny,
            3 => Sz::Random,
            _ => Sz::Mixed,
        };
        Policy {
            canonical: false,
            head_out: sz(ctx),
            body_out: sz(ctx),
            body_piece: sz(ctx),
            read_out: sz(ctx),
            await_policy,
            queries: ctx.chance(1, 3),
            stop_boundary: ctx.chance(1, 3),
            toggle_stop: ctx.chance(1, 6),
            spurious: ctx.chance(1, 3),
            poll_past_decision: false,
            skip_interim: false,
            think_ns: *ctx.pick(&[0u64, 100, 10_000, 2_000_000]),
            lat_ns: *ctx.pick(&[0u64, 1_000, 100_000, 40_000_000]),
        }
    }
}

fn size(ctx: &mut Ctx, s: Sz, canonical: bool) -> usize {
    if canonical {
        return 65_536;
    }
    match s {
        Sz::Large => 65_536,
        Sz::Tiny => ctx.range(0, 12),
        Sz::Random => ctx.range(0, 400),
        Sz::Mixed => match ctx.draw(4) {
            0 => 65_536,
            1 => ctx.range(0, 12),
            2 => ctx.range(13, 80),
            _ => ctx.range(0, 12_000),
        },
    }
}

// ------------------------------------------------------------------------------- observations

#[derive(Clone, Debug, PartialEq, Eq)]
pub struct RespObs {
    pub status: u16,
    pub http11: bool,
    /// (lower-case name, value) as the returned HeaderMap iterates
    pub fields: Vec<(String, Vec<u8>)>,
}

impl RespObs {
    pub fn of(r: &Response<()>) -> RespObs {
        RespObs {
            status: r.status().as_u16(),
            http11: r.version() == ureq_proto::http::Version::HTTP_11,
            fields: r.headers().iter().map(|(k, v)| (k.as_str().to_string(), v.as_bytes().to_vec())).collect(),
        }
    }
}

#[derive(Clone, Debug)]
pub struct AwaitEv {
    /// absolute s2c offset where the window starts, and its length
    pub at: usize,
    pub len: usize,
    pub result: Result<usize, String>,
    pub can_keep_after: bool,
}

pub enum Terminal {
    Redirect(Flow<(), fs::Redirect>),
    Cleanup(Flow<(), fs::Cleanup>),
    /// nothing more can happen (input stopped, or a call failed): the flow in its last state
    Stuck(&'static str),
    Error(&'static str, String),
}

impl Terminal {
    pub fn name(&self) -> &'static str {
        match self {
            Terminal::Redirect(_) => "Redirect",
            Terminal::Cleanup(_) => "Cleanup",
            Terminal::Stuck(_) => "Stuck",
            Terminal::Error(..) => "Error",
        }
    }
}

pub struct Obs {
    /// everything the client put on the wire in this exchange
    pub c2s: Vec<u8>,
    pub head_len: usize,
    pub responses: Vec<RespObs>,
    pub skipped_100: usize,
    pub resp_body: Vec<u8>,
    pub terminal: Terminal,
    pub must_close: Option<bool>,
    pub reason: Option<&'static str>,
    /// server bytes consumed by this exchange
    pub consumed: usize,
    pub edges: Vec<(&'static str, &'static str)>,
    pub await_log: Vec<AwaitEv>,
    pub gave_up_waiting: bool,
    pub refused_edge: bool,
    pub body_asked: bool,
    pub body_mode: Option<BodyMode>,
    /// Flow<SendRequest>::headers_map() before the first write (C13 runs only)
    pub accessor_headers: Option<Vec<(String, Vec<u8>)>>,
    pub calls: usize,
    /// sizes of the successful head writes, in order
    pub head_pieces: Vec<usize>,
    pub overflow_retries: usize,
    pub end_ns: u64,
    /// set when the step budget ran out although the schedule had turned fair
    pub budget_exhausted: bool,
    /// per-call bound violations noticed by the driver (consumed > window, produced > space, ...)
    pub bound_violation: Option<String>,
    /// the flow as it was left when the exchange ended in Stuck / Error
    pub leftover: Option<FlowSt>,
}

impl Obs {
    pub fn head(&self) -> &[u8] {
        &self.c2s[..self.head_len.min(self.c2s.len())]
    }
    pub fn body_wire(&self) -> &[u8] {
        &self.c2s[self.head_len.min(self.c2s.len())..]
    }
    /// A compact abstract of the schedule this exchange went through (for the distinctness
    /// measure): state path, call count, retries, head pieces, skipped interims, responses,
    /// number of looks while awaiting 100, order of magnitude of the simulated duration.
    pub fn schedule_sig(&self) -> u64 {
        let mut h = 0x9E37_79B9_7F4A_7C15u64;
        for (a, b) in &self.edges {
            h = crate::rng::hash_step(h, (a.len() * 31 + b.len()) as u64);
        }
        for v in [self.calls as u64, self.overflow_retries as u64, self.head_pieces.len() as u64, self.skipped_100 as u64, self.responses.len() as u64, self.await_log.len() as u64, 64 - (self.end_ns + 1).leading_zeros() as u64, self.gave_up_waiting as u64, (self.consumed as u64).min(4096)] {
            h = crate::rng::hash_step(h, v);
        }
        h
    }

    pub fn state_path(&self) -> String {
        let mut s = String::new();
        for (a, b) in &self.edges {
            if s.is_empty() {
                s.push_str(a);
            }
            s.push_str("->");
            s.push_str(b);
        }
        s
    }
}

// -------------------------------------------------------------------------------------- world

#[derive(Clone, Copy, Debug, PartialEq, Eq, PartialOrd, Ord)]
enum Ev {
    S2c(usize),
    C2s(usize),
    Timer,
    Eof,
    Wake,
}

pub struct Exchange<'a> {
    pub prop: &'static str,
    /// request payload the body source will hand over
    pub body: &'a [u8],
    pub policy: Policy,
    pub server: ServerPlan,
    /// bytes already in the client's input window when the exchange starts (pool reuse on a
    /// fixed stream): (stream, already-consumed offset). The server plan is then ignored for
    /// arrivals before `stream.len()`.
    pub fixed_stream: Option<FixedStream<'a>>,
}

pub struct FixedStream<'a> {
    pub stream: &'a [u8],
    /// offset at which this exchange starts reading
    pub consumed: usize,
    /// bytes beyond `consumed` that had already arrived during the previous exchange
    pub visible: usize,
    /// absolute arrival prefixes (increasing)
    pub arrivals: Vec<usize>,
}

struct Run<'a> {
    now: u64,
    seq: u64,
    heap: BinaryHeap<Reverse<(u64, u64, Ev)>>,
    // transport
    s2c: Vec<u8>,
    visible: usize,
    consumed: usize,
    base: usize,
    eof: bool,
    c2s_seen: usize,
    // server
    sent: Vec<bool>,
    srv_last_arrival: u64,
    head_done_at_server: bool,
    req_done_at_server: bool,
    // client
    st: FlowSt,
    timer_fired: bool,
    timer_armed: bool,
    last_try_visible: Option<usize>,
    body_off: usize,
    idle_small: u32,
    stop: bool,
    wake_pending: bool,
    spurious_left: u32,
    repolled_after_head: bool,
    past_decision_polls: u32,
    ex: &'a Exchange<'a>,
    obs: Obs,
}

pub enum Step {
    Progress,
    Blocked,
    Done,
}

fn lat(ctx: &mut Ctx, max: u64) -> u64 {
    if max == 0 {
        0
    } else {
        ctx.draw(max + 1)
    }
}

impl<'a> Run<'a> {
    fn push(&mut self, at: u64, ev: Ev) {
        self.seq += 1;
        self.heap.push(Reverse((at, self.seq, ev)));
    }

    fn wake(&mut self, ctx: &mut Ctx, delay: u64) {
        if !self.wake_pending {
            self.wake_pending = true;
            let _ = ctx;
            let at = self.now + delay;
            self.push(at, Ev::Wake);
        }
    }

    /// The server sends one message: its segments arrive in order with drawn latencies.
    fn server_send(&mut self, ctx: &mut Ctx, idx: usize) {
        if self.sent[idx] {
            return;
        }
        self.sent[idx] = true;
        let m = &self.ex.server.msgs[idx];
        let start = self.s2c.len();
        self.s2c.extend_from_slice(&m.bytes);
        let mut t = self.now.max(self.srv_last_arrival) + m.think_ns;
        let cuts: Vec<usize> = if m.cuts.is_empty() { vec![m.bytes.len()] } else { m.cuts.clone() };
        for c in cuts {
            if c == 0 {
                continue;
            }
            t += lat(ctx, self.ex.policy.lat_ns);
            self.push(t, Ev::S2c(start + c));
        }
        self.srv_last_arrival = t;
        if self.sent.iter().all(|s| *s) && self.ex.server.close_after {
            let t2 = t + lat(ctx, self.ex.policy.lat_ns);
            self.push(t2, Ev::Eof);
        }
    }

    fn server_on_bytes(&mut self, ctx: &mut Ctx) {
        if self.sent.iter().all(|s| *s) {
            return;
        }
        // strict reference parser on what has reached the server
        if !self.head_done_at_server {
            if let Ok(Some(p)) = parse_request_head(&self.obs.c2s[..self.c2s_seen]) {
                self.head_done_at_server = true;
                let _ = p;
                for i in 0..self.ex.server.msgs.len() {
                    if self.ex.server.msgs[i].trigger == Trigger::AfterRequestHead {
                        self.server_send(ctx, i);
                    }
                }
            }
        }
        if self.head_done_at_server && !self.req_done_at_server {
            let seen = &self.obs.c2s[..self.c2s_seen];
            if let Ok(Some(p)) = parse_request_head(seen) {
                let body = &seen[p.len..];
                let te = p.fields.iter().any(|(n, v)| n == "transfer-encoding" && v.eq_ignore_ascii_case(b"chunked"));
                let cl = p.fields.iter().find(|(n, _)| n == "content-length").and_then(|(_, v)| std::str::from_utf8(v).ok()).and_then(|s| s.parse::<u64>().ok());
                let done = if te {
                    matches!(dechunk_strict(body), Ok(d) if d.terminators == 1)
                } else if let Some(n) = cl {
                    body.len() as u64 >= n
                } else {
                    true
                };
                if done {
                    self.req_done_at_server = true;
                    for i in 0..self.ex.server.msgs.len() {
                        if self.ex.server.msgs[i].trigger == Trigger::AfterRequest {
                            self.server_send(ctx, i);
                        }
                    }
                }
            }
        }
    }

    fn c2s_write(&mut self, ctx: &mut Ctx, bytes: &[u8]) {
        if bytes.is_empty() {
            return;
        }
        self.obs.c2s.extend_from_slice(bytes);
        let t = self.now + lat(ctx, self.ex.policy.lat_ns);
        let upto = self.obs.c2s.len();
        self.push(t, Ev::C2s(upto));
    }

    fn window(&self) -> &[u8] {
        &self.s2c[self.consumed..self.visible]
    }

    fn edge(&mut self, ctx: &mut Ctx, from: &'static str, to: &'static str) {
        self.obs.edges.push((from, to));
        ctx.ev(|| format!("t={} {} -> {}", self.now, from, to));
    }

    fn queries(&mut self, ctx: &mut Ctx) {
        ctx.count("f:caller_query_interleaved");
        match &mut self.st {
            FlowSt::SendRequest(f) => {
                let _ = lib("Flow<SendRequest>::can_proceed", || f.can_proceed());
                let _ = lib("Flow<SendRequest>::method", || f.method().clone());
                let _ = lib("Flow<SendRequest>::uri", || f.uri().clone());
                let _ = lib("Flow<SendRequest>::version", || f.version());
            }
            FlowSt::Await100(f) => {
                let _ = lib("Flow<Await100>::can_keep_await_100", || f.can_keep_await_100());
            }
            FlowSt::SendBody(f) => {
                let _ = lib("Flow<SendBody>::can_proceed", || f.can_proceed());
                let _ = lib("Flow<SendBody>::is_chunked", || f.is_chunked());
                let _ = lib("Flow<SendBody>::calculate_max_input", || f.calculate_max_input(100));
            }
            FlowSt::RecvResponse(f) => {
                let _ = lib("Flow<RecvResponse>::can_proceed", || f.can_proceed());
            }
            FlowSt::RecvBody(f) => {
                let _ = lib("Flow<RecvBody>::can_proceed", || f.can_proceed());
                let _ = lib("Flow<RecvBody>::is_on_chunk_boundary", || f.is_on_chunk_boundary());
                let _ = lib("Flow<RecvBody>::body_mode", || f.body_mode());
            }
            _ => {}
        }
    }

    fn bound(&mut self, what: String) {
        if self.obs.bound_violation.is_none() {
            self.obs.bound_violation = Some(what);
        }
    }

    /// One real API call (or one typestate transition).
    fn client_step(&mut self, ctx: &mut Ctx, out: &mut Vec<u8>) -> Step {
        let ex = self.ex;
        let pol = &ex.policy;
        if pol.queries && !pol.canonical && ctx.chance(1, 6) {
            self.queries(ctx);
        }
        self.obs.calls += 1;
        ctx.steps += 1;
        let st = std::mem::replace(&mut self.st, FlowSt::Gone);
        match st {
            FlowSt::Prepare(f) => {
                self.st = FlowSt::SendRequest(lib("Flow<Prepare>::proceed", || f.proceed()));
                self.edge(ctx, "Prepare", "SendRequest");
                Step::Progress
            }
            FlowSt::SendRequest(mut f) => {
                if self.ex.prop == "C13" && self.obs.accessor_headers.is_none() {
                    // the request as its accessor shows it (once, before the first write)
                    let m = lib("Flow<SendRequest>::headers_map", || f.headers_map());
                    self.obs.accessor_headers = Some(match m {
                        Ok(m) => m.iter().map(|(k, v)| (k.as_str().to_string(), v.as_bytes().to_vec())).collect(),
                        Err(_) => Vec::new(),
                    });
                }
                if lib("Flow<SendRequest>::can_proceed", || f.can_proceed()) {
                    self.obs.head_len = self.obs.c2s.len();
                    match lib("Flow<SendRequest>::proceed", || f.proceed()) {
                        Ok(Some(r)) => {
                            self.st = from_send_request(r);
                            let to = self.st.name();
                            self.edge(ctx, "SendRequest", to);
                            if let FlowSt::Await100(_) = self.st {
                                match self.ex.policy.await_policy {
                                    AwaitPolicy::Timer(ns) => {
                                        self.timer_armed = true;
                                        let at = self.now + ns;
                                        self.push(at, Ev::Timer);
                                    }
                                    AwaitPolicy::GiveUpAtOnce => self.timer_fired = true,
                                    AwaitPolicy::WaitDecision => {}
                                }
                            }
                            if let FlowSt::SendBody(_) = self.st {
                                self.obs.body_asked = true;
                            }
                            Step::Progress
                        }
                        Ok(None) => {
                            self.obs.terminal = Terminal::Error("SendRequest", "can_proceed() was true but proceed() returned None".into());
                            Step::Done
                        }
                        Err(e) => {
                            self.obs.terminal = Terminal::Error("SendRequest", format!("proceed: {}", e));
                            Step::Done
                        }
                    }
                } else {
                    let mut n = size(ctx, pol.head_out, pol.canonical);
                    if self.idle_small > 0 {
                        // after an overflow the caller comes back with a larger buffer
                        n = n.max(64 << self.idle_small.min(10));
                    }
                    if out.len() < n {
                        out.resize(n, 0);
                    }
                    let r = lib("Flow<SendRequest>::write", || f.write(&mut out[..n]));
                    ctx.ev(|| format!("t={} SendRequest.write(out={}) -> {:?}", self.now, n, r.as_ref().map_err(err_name)));
                    self.st = FlowSt::SendRequest(f);
                    match r {
                        Ok(k) => {
                            if k > n {
                                self.bound(format!("SendRequest.write produced {} > output space {}", k, n));
                                self.obs.terminal = Terminal::Error("SendRequest", "bound".into());
                                return Step::Done;
                            }
                            self.idle_small = 0;
                            self.obs.head_pieces.push(k);
                            let bytes = out[..k].to_vec();
                            self.c2s_write(ctx, &bytes);
                            Step::Progress
                        }
                        Err(Error::OutputOverflow) => {
                            self.obs.overflow_retries += 1;
                            self.idle_small += 1;
                            ctx.count("f:backpressure");
                            Step::Progress
                        }
                        Err(e) => {
                            self.obs.terminal = Terminal::Error("SendRequest", format!("write: {}", e));
                            Step::Done
                        }
                    }
                }
            }
            FlowSt::Await100(mut f) => {
                let keep = lib("Flow<Await100>::can_keep_await_100", || f.can_keep_await_100());
                let polling_on = !keep && self.ex.policy.poll_past_decision && !self.timer_fired && self.past_decision_polls < 12 && (self.last_try_visible != Some(self.visible) || self.past_decision_polls < 8);
                if polling_on {
                    // look again although the library has decided
                    self.past_decision_polls += 1;
                    self.last_try_visible = Some(self.visible);
                    ctx.count("f:caller_polls_past_decision");
                    let len = self.visible - self.consumed;
                    let r = lib("repeat_Flow<Await100>::try_read_100", || f.try_read_100(&self.s2c[self.consumed..self.visible]));
                    ctx.ev(|| format!("t={} Await100.try_read_100(window={}) again -> {:?}", self.now, len, r.as_ref().map_err(err_name)));
                    self.st = FlowSt::Await100(f);
                    return match r {
                        Ok(n) if n <= len => {
                            self.consumed += n;
                            Step::Progress
                        }
                        Ok(n) => {
                            self.bound(format!("try_read_100 consumed {} > window {}", n, len));
                            self.obs.terminal = Terminal::Error("Await100", "bound".into());
                            Step::Done
                        }
                        Err(e) => {
                            self.obs.terminal = Terminal::Error("Await100", format!("try_read_100: {}", e));
                            Step::Done
                        }
                    };
                }
                if !keep || self.timer_fired {
                    if keep {
                        self.obs.gave_up_waiting = true;
                    }
                    match lib("Flow<Await100>::proceed", || f.proceed()) {
                        Ok(r) => {
                            self.st = from_await100(r);
                            let to = self.st.name();
                            self.edge(ctx, "Await100", to);
                            match self.st {
                                FlowSt::SendBody(_) => self.obs.body_asked = true,
                                FlowSt::RecvResponse(_) => self.obs.refused_edge = true,
                                _ => {}
                            }
                            self.last_try_visible = None;
                            Step::Progress
                        }
                        Err(e) => {
                            self.obs.terminal = Terminal::Error("Await100", format!("proceed: {}", e));
                            Step::Done
                        }
                    }
                } else {
                    let fresh = self.last_try_visible != Some(self.visible);
                    if self.visible > self.consumed && (fresh || self.spurious_left > 0) {
                        if !fresh {
                            self.spurious_left -= 1;
                            ctx.count("f:stall_repoll");
                        }
                        self.last_try_visible = Some(self.visible);
                        let at = self.consumed;
                        let len = self.visible - self.consumed;
                        let r = lib("Flow<Await100>::try_read_100", || f.try_read_100(&self.s2c[self.consumed..self.visible]));
                        let keep2 = lib("Flow<Await100>::can_keep_await_100", || f.can_keep_await_100());
                        ctx.ev(|| format!("t={} Await100.try_read_100(window={}) -> {:?} keep={}", self.now, len, r.as_ref().map_err(err_name), keep2));
                        self.obs.await_log.push(AwaitEv { at, len, result: r.as_ref().map(|n| *n).map_err(|e| err_name(e).to_string()), can_keep_after: keep2 });
                        self.st = FlowSt::Await100(f);
                        match r {
                            Ok(n) => {
                                if n > len {
                                    self.bound(format!("try_read_100 consumed {} > window {}", n, len));
                                    self.obs.terminal = Terminal::Error("Await100", "bound".into());
                                    return Step::Done;
                                }
                                self.consumed += n;
                                Step::Progress
                            }
                            Err(e) => {
                                self.obs.terminal = Terminal::Error("Await100", format!("try_read_100: {}", e));
                                Step::Done
                            }
                        }
                    } else {
                        self.st = FlowSt::Await100(f);
                        Step::Blocked
                    }
                }
            }
            FlowSt::SendBody(mut f) => {
                let body = self.ex.body;
                let finished = lib("Flow<SendBody>::can_proceed", || f.can_proceed());
                if finished && self.body_off >= body.len() {
                    match lib("Flow<SendBody>::proceed", || f.proceed()) {
                        Some(n) => {
                            self.st = FlowSt::RecvResponse(n);
                            self.edge(ctx, "SendBody", "RecvResponse");
                            self.last_try_visible = None;
                            Step::Progress
                        }
                        None => {
                            self.obs.terminal = Terminal::Error("SendBody", "can_proceed() was true but proceed() returned None".into());
                            Step::Done
                        }
                    }
                } else {
                    let left = body.len() - self.body_off;
                    let mut n = size(ctx, pol.body_out, pol.canonical);
                    if self.idle_small > 0 {
                        n = n.max(16 << self.idle_small.min(12));
                    }
                    let piece = if left == 0 {
                        0
                    } else if pol.canonical {
                        left
                    } else {
                        match pol.body_piece {
                            Sz::Large => left,
                            Sz::Tiny => ctx.range(1, 3).min(left),
                            Sz::Random => ctx.range(1, 700).min(left),
                            Sz::Mixed => match ctx.draw(3) {
                                0 => left,
                                1 => lib("Flow<SendBody>::calculate_max_input", || f.calculate_max_input(n)).clamp(1, left),
                                _ => ctx.range(1, 64).min(left),
                            },
                        }
                    };
                    if out.len() < n {
                        out.resize(n, 0);
                    }
                    let input = &body[self.body_off..self.body_off + piece];
                    let r = lib("Flow<SendBody>::write", || f.write(input, &mut out[..n]));
                    ctx.ev(|| format!("t={} SendBody.write(in={}, out={}) -> {:?}", self.now, piece, n, r.as_ref().map_err(err_name)));
                    self.st = FlowSt::SendBody(f);
                    match r {
                        Ok((c, p)) => {
                            if c > piece || p > n {
                                self.bound(format!("SendBody.write(in={}, out={}) returned ({}, {})", piece, n, c, p));
                                self.obs.terminal = Terminal::Error("SendBody", "bound".into());
                                return Step::Done;
                            }
                            self.body_off += c;
                            let bytes = out[..p].to_vec();
                            self.c2s_write(ctx, &bytes);
                            if c == 0 && p == 0 {
                                self.idle_small += 1;
                                ctx.count("f:backpressure");
                                if self.idle_small > 40 {
                                    self.obs.budget_exhausted = true;
                                    self.obs.terminal = Terminal::Stuck("SendBody");
                                    return Step::Done;
                                }
                            } else {
                                self.idle_small = 0;
                            }
                            Step::Progress
                        }
                        Err(e) => {
                            self.obs.terminal = Terminal::Error("SendBody", format!("write: {}", e));
                            Step::Done
                        }
                    }
                }
            }
            FlowSt::RecvResponse(mut f) => {
                let ready = lib("Flow<RecvResponse>::can_proceed", || f.can_proceed());
                // an interim-aware caller does not advance on a 1xx head: it polls for the final one
                let poll_on = ready && self.ex.policy.skip_interim && self.obs.responses.len() < 4 && self.obs.responses.last().map_or(false, |r| (102..200).contains(&r.status));
                if poll_on {
                    ctx.count("f:polled_past_interim_1xx");
                }
                if ready && !poll_on && self.spurious_left > 0 && !self.repolled_after_head && self.visible == self.consumed && !self.obs.responses.is_empty() {
                    // a caller that polls once more although the head was delivered and nothing
                    // new has arrived: it has nothing to offer but an empty window
                    self.repolled_after_head = true;
                    if ctx.chance(1, 2) {
                        self.spurious_left -= 1;
                        ctx.count("f:repoll_after_head_delivered");
                        let r = lib("repeat_Flow<RecvResponse>::try_response", || f.try_response(&[]).map(|x| (x.0, x.1.is_some())));
                        ctx.ev(|| format!("t={} RecvResponse.try_response(window=0) after the head was delivered -> {:?}", self.now, r.as_ref().map_err(err_name)));
                        if let Ok((n, _)) = r {
                            if n > 0 {
                                self.bound(format!("try_response consumed {} bytes of an empty window", n));
                            }
                        }
                    }
                }
                if ready && !poll_on {
                    match lib("Flow<RecvResponse>::proceed", || f.proceed()) {
                        Some(r) => {
                            self.st = from_recv_response(r);
                            let to = self.st.name();
                            self.edge(ctx, "RecvResponse", to);
                            if let FlowSt::RecvBody(b) = &mut self.st {
                                self.obs.body_mode = Some(lib("Flow<RecvBody>::body_mode", || b.body_mode()));
                                if self.ex.policy.stop_boundary {
                                    self.stop = true;
                                    lib("Flow<RecvBody>::stop_on_chunk_boundary", || b.stop_on_chunk_boundary(true));
                                }
                            }
                            self.last_try_visible = None;
                            Step::Progress
                        }
                        None => {
                            self.obs.terminal = Terminal::Error("RecvResponse", "can_proceed() was true but proceed() returned None".into());
                            Step::Done
                        }
                    }
                } else {
                    let fresh = self.last_try_visible != Some(self.visible);
                    if fresh || self.spurious_left > 0 {
                        if !fresh {
                            self.spurious_left -= 1;
                            ctx.count("f:stall_repoll");
                        }
                        self.last_try_visible = Some(self.visible);
                        let len = self.visible - self.consumed;
                        let r = lib("Flow<RecvResponse>::try_response", || f.try_response(&self.s2c[self.consumed..self.visible]));
                        ctx.ev(|| format!("t={} RecvResponse.try_response(window={}) -> {}", self.now, len, match &r { Ok((n, Some(x))) => format!("Ok(({}, Some({})))", n, x.status().as_u16()), Ok((n, None)) => format!("Ok(({}, None))", n), Err(e) => format!("Err({})", err_name(e)) }));
                        self.st = FlowSt::RecvResponse(f);
                        match r {
                            Ok((n, resp)) => {
                                if n > len {
                                    self.bound(format!("try_response consumed {} > window {}", n, len));
                                    self.obs.terminal = Terminal::Error("RecvResponse", "bound".into());
                                    return Step::Done;
                                }
                                self.consumed += n;
                                match resp {
                                    Some(r) => {
                                        self.obs.responses.push(RespObs::of(&r));
                                        self.last_try_visible = None;
                                        Step::Progress
                                    }
                                    None if n > 0 => {
                                        self.obs.skipped_100 += 1;
                                        self.last_try_visible = None;
                                        Step::Progress
                                    }
                                    None => Step::Blocked,
                                }
                            }
                            Err(e) => {
                                self.obs.terminal = Terminal::Error("RecvResponse", format!("try_response: {}", e));
                                Step::Done
                            }
                        }
                    } else {
                        self.st = FlowSt::RecvResponse(f);
                        Step::Blocked
                    }
                }
            }
            FlowSt::RecvBody(mut f) => {
                let close_delim = self.obs.body_mode == Some(BodyMode::CloseDelimited);
                let can = lib("Flow<RecvBody>::can_proceed", || f.can_proceed());
                let window_empty = self.visible == self.consumed;
                if can && (!close_delim || (self.eof && window_empty)) {
                    match lib("Flow<RecvBody>::proceed", || f.proceed()) {
                        Some(r) => {
                            self.st = from_recv_body(r);
                            let to = self.st.name();
                            self.edge(ctx, "RecvBody", to);
                            Step::Progress
                        }
                        None => {
                            self.obs.terminal = Terminal::Error("RecvBody", "can_proceed() was true but proceed() returned None".into());
                            Step::Done
                        }
                    }
                } else {
                    if self.ex.policy.toggle_stop && !pol.canonical && ctx.chance(1, 4) {
                        self.stop = !self.stop;
                        let s = self.stop;
                        lib("Flow<RecvBody>::stop_on_chunk_boundary", || f.stop_on_chunk_boundary(s));
                    }
                    let fresh = self.last_try_visible != Some(self.visible);
                    if !fresh && self.spurious_left == 0 {
                        // this window was already tried to exhaustion: wait for more input / EOF
                        self.st = FlowSt::RecvBody(f);
                        return Step::Blocked;
                    }
                    if !fresh {
                        self.spurious_left -= 1;
                        ctx.count("f:stall_repoll");
                    }
                    let mut n = size(ctx, pol.read_out, pol.canonical);
                    if self.idle_small > 0 {
                        n = n.max(1 << self.idle_small.min(16));
                    }
                    if out.len() < n {
                        out.resize(n, 0);
                    }
                    let len = self.visible - self.consumed;
                    let r = lib("Flow<RecvBody>::read", || f.read(&self.s2c[self.consumed..self.visible], &mut out[..n]));
                    ctx.ev(|| format!("t={} RecvBody.read(window={}, out={}) -> {:?}", self.now, len, n, r.as_ref().map_err(err_name)));
                    self.st = FlowSt::RecvBody(f);
                    match r {
                        Ok((c, p)) => {
                            if c > len || p > n {
                                self.bound(format!("RecvBody.read(window={}, out={}) returned ({}, {})", len, n, c, p));
                                self.obs.terminal = Terminal::Error("RecvBody", "bound".into());
                                return Step::Done;
                            }
                            self.consumed += c;
                            self.obs.resp_body.extend_from_slice(&out[..p]);
                            if c == 0 && p == 0 {
                                if len > 0 && self.idle_small < 4 {
                                    // nothing moved although there is input: come back with more room
                                    self.idle_small += 1;
                                    ctx.count("f:backpressure");
                                    return Step::Progress;
                                }
                                self.last_try_visible = Some(self.visible);
                                Step::Blocked
                            } else {
                                self.idle_small = 0;
                                self.last_try_visible = None;
                                Step::Progress
                            }
                        }
                        Err(e) => {
                            self.obs.terminal = Terminal::Error("RecvBody", format!("read: {}", e));
                            Step::Done
                        }
                    }
                }
            }
            FlowSt::Redirect(f) => {
                self.obs.must_close = Some(lib("Flow<Redirect>::must_close_connection", || f.must_close_connection()));
                self.obs.reason = lib("Flow<Redirect>::close_reason", || f.close_reason());
                self.obs.terminal = Terminal::Redirect(f);
                Step::Done
            }
            FlowSt::Cleanup(f) => {
                self.obs.must_close = Some(lib("Flow<Cleanup>::must_close_connection", || f.must_close_connection()));
                self.obs.reason = lib("Flow<Cleanup>::close_reason", || f.close_reason());
                self.obs.terminal = Terminal::Cleanup(f);
                Step::Done
            }
            FlowSt::Gone => {
                self.obs.terminal = Terminal::Error("Gone", "flow consumed".into());
                Step::Done
            }
        }
    }
}

impl<'a> Exchange<'a> {
    /// Run one exchange to its end. `start` is the flow in its Prepare state.
    pub fn run(&self, ctx: &mut Ctx, start: Flow<(), fs::Prepare>) -> R<Obs> {
        let obs = Obs {
            c2s: Vec::new(),
            head_len: 0,
            responses: Vec::new(),
            skipped_100: 0,
            accessor_headers: None,
            resp_body: Vec::new(),
            terminal: Terminal::Stuck("Prepare"),
            must_close: None,
            reason: None,
            consumed: 0,
            edges: Vec::new(),
            await_log: Vec::new(),
            gave_up_waiting: false,
            refused_edge: false,
            body_asked: false,
            body_mode: None,
            calls: 0,
            head_pieces: Vec::new(),
            overflow_retries: 0,
            end_ns: 0,
            budget_exhausted: false,
            bound_violation: None,
            leftover: None,
        };
        let mut r = Run {
            now: 0,
            seq: 0,
            heap: BinaryHeap::new(),
            s2c: Vec::new(),
            visible: 0,
            consumed: 0,
            base: 0,
            eof: false,
            c2s_seen: 0,
            sent: vec![false; self.server.msgs.len()],
            srv_last_arrival: 0,
            head_done_at_server: false,
            req_done_at_server: false,
            st: FlowSt::Prepare(start),
            timer_fired: false,
            timer_armed: false,
            last_try_visible: None,
            body_off: 0,
            idle_small: 0,
            stop: false,
            wake_pending: false,
            spurious_left: if self.policy.spurious && !self.policy.canonical { 3 } else { 0 },
            repolled_after_head: false,
            past_decision_polls: 0,
            ex: self,
            obs,
        };
        // fixed stream (pool reuse): everything the server will ever say is predetermined
        if let Some(fx) = &self.fixed_stream {
            r.s2c = fx.stream.to_vec();
            r.consumed = fx.consumed;
            r.base = fx.consumed;
            r.visible = fx.visible.max(fx.consumed);
            let mut t = 0u64;
            for &a in &fx.arrivals {
                if a > r.visible {
                    t += lat(ctx, self.policy.lat_ns);
                    r.push(t, Ev::S2c(a.min(fx.stream.len())));
                }
            }
            if self.server.close_after {
                t += lat(ctx, self.policy.lat_ns);
                r.push(t, Ev::Eof);
            }
            if self.policy.canonical {
                r.visible = fx.stream.len();
                r.eof = self.server.close_after;
            }
        } else {
            for i in 0..self.server.msgs.len() {
                if self.server.msgs[i].trigger == Trigger::AtStart {
                    r.server_send(ctx, i);
                }
            }
            if self.server.msgs.is_empty() && self.server.close_after {
                r.push(0, Ev::Eof);
            }
        }
        r.wake(ctx, 0);
        let mut out: Vec<u8> = vec![0u8; 65_536];
        let budget: u64 = 400 + 6 * (self.body.len() as u64 + self.server.msgs.iter().map(|m| m.bytes.len() as u64).sum::<u64>() + self.fixed_stream.as_ref().map(|f| f.stream.len() as u64).unwrap_or(0));
        let mut steps = 0u64;
        let mut done = false;
        while let Some(Reverse((at, _, ev))) = r.heap.pop() {
            r.now = at;
            match ev {
                Ev::S2c(upto) => {
                    if upto > r.visible {
                        r.visible = upto;
                        if matches!(r.st, FlowSt::RecvBody(_)) {
                            r.idle_small = 0;
                        }
                    }
                    let d = lat(ctx, r.ex.policy.think_ns);
                    r.wake(ctx, d);
                }
                Ev::C2s(upto) => {
                    if upto > r.c2s_seen {
                        r.c2s_seen = upto;
                    }
                    r.server_on_bytes(ctx);
                }
                Ev::Timer => {
                    if r.timer_armed {
                        r.timer_fired = true;
                        ctx.count("p:await_timer_fired");
                        r.wake(ctx, 0);
                    }
                }
                Ev::Eof => {
                    r.eof = true;
                    r.wake(ctx, 0);
                }
                Ev::Wake => {
                    r.wake_pending = false;
                    steps += 1;
                    if steps > budget {
                        r.obs.budget_exhausted = true;
                        r.obs.terminal = Terminal::Stuck(r.st.name());
                        done = true;
                        break;
                    }
                    match r.client_step(ctx, &mut out) {
                        Step::Progress => {
                            let d = lat(ctx, r.ex.policy.think_ns);
                            r.wake(ctx, d);
                        }
                        Step::Blocked => {
                            if r.spurious_left > 0 && !r.heap.is_empty() && ctx.chance(1, 3) {
                                let d = lat(ctx, 1000);
                                r.wake(ctx, d);
                            }
                        }
                        Step::Done => {
                            done = true;
                            break;
                        }
                    }
                }
            }
        }
        if !done {
            // nothing can happen any more: the flow is stuck where it is
            let name = r.st.name();
            r.obs.terminal = Terminal::Stuck(name);
        }
        if matches!(r.obs.terminal, Terminal::Stuck(_) | Terminal::Error(..)) {
            r.obs.leftover = Some(std::mem::replace(&mut r.st, FlowSt::Gone));
        }
        r.obs.consumed = r.consumed - r.base;
        r.obs.end_ns = r.now;
        ctx.sim_ns += r.now;
        if r.obs.head_len == 0 {
            r.obs.head_len = r.obs.c2s.len();
        }
        if let Some(b) = r.obs.bound_violation.take() {
            return Err(crate::ctx::Violation { code: format!("{}.count_out_of_bounds", self.prop), key: String::new(), msg: b });
        }
        Ok(r.obs)
    }
}
