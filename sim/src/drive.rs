//! Thin driver layer over the real ureq-proto API: request construction, typestate holders,
//! and wrappers that register the call site (for panic attribution) and count library calls.

use ureq_proto::client::call::state as cs;
use ureq_proto::client::call::Call;
use ureq_proto::client::flow::state as fs;
use ureq_proto::client::flow::{
    Await100Result, Flow, RecvBodyResult, RecvResponseResult, SendRequestResult,
};
use ureq_proto::http::{HeaderValue, Method, Request, Version};
use ureq_proto::Error;

use crate::ctx::{lib, Ctx};

pub type Hdr = (String, Vec<u8>);

pub fn version_of(v: u8) -> Version {
    match v {
        9 => Version::HTTP_09,
        10 => Version::HTTP_10,
        11 => Version::HTTP_11,
        20 => Version::HTTP_2,
        30 => Version::HTTP_3,
        _ => Version::HTTP_11,
    }
}

pub fn build_request(method: &str, version: u8, uri: &str, headers: &[Hdr]) -> Request<()> {
    let mut b = Request::builder()
        .method(Method::from_bytes(method.as_bytes()).expect("harness: method"))
        .uri(uri)
        .version(version_of(version));
    for (n, v) in headers {
        b = b.header(n.as_str(), HeaderValue::from_bytes(v).expect("harness: header value"));
    }
    b.body(()).expect("harness: request")
}

/// Position-coded body byte: a dropped, duplicated or reordered byte is attributable. A few
/// positions carry CR, LF, '0', ';' to confuse anything that scans.
#[inline]
pub fn body_byte(seed: u64, pos: u64) -> u8 {
    let x = (pos.wrapping_mul(0x9E37_79B9) ^ seed).wrapping_mul(0x85EB_CA6B) >> 13;
    match (x ^ pos) % 23 {
        0 => b'\r',
        1 => b'\n',
        2 => b'0',
        3 => b';',
        _ => b'a' + (pos.wrapping_add(seed & 7) % 26) as u8,
    }
}

pub fn body_bytes(seed: u64, from: u64, len: usize) -> Vec<u8> {
    (0..len as u64).map(|i| body_byte(seed, from.wrapping_add(i))).collect()
}

pub fn hex_len(mut n: usize) -> usize {
    let mut l = 1;
    while n >= 16 {
        n /= 16;
        l += 1;
    }
    l
}

// ------------------------------------------------------------------------------------ sender

/// The body-sending side in its two personalities.
pub enum Sender {
    Flow(Flow<(), fs::SendBody>),
    Call(Call<cs::WithBody, ()>),
}

impl Sender {
    pub fn write(&mut self, ctx: &mut Ctx, input: &[u8], output: &mut [u8]) -> Result<(usize, usize), Error> {
        ctx.steps += 1;
        match self {
            Sender::Flow(f) => lib("Flow<SendBody>::write", || f.write(input, output)),
            Sender::Call(c) => lib("Call<WithBody>::write", || c.write(input, output)),
        }
    }
    pub fn finished(&self) -> bool {
        match self {
            Sender::Flow(f) => lib("Flow<SendBody>::can_proceed", || f.can_proceed()),
            Sender::Call(c) => lib("Call<WithBody>::is_finished", || c.is_finished()),
        }
    }
    pub fn is_flow(&self) -> bool {
        matches!(self, Sender::Flow(_))
    }
    /// Advance out of the body-sending stage: Some(true) = advanced, Some(false) = refused.
    pub fn advance(self) -> bool {
        match self {
            Sender::Flow(f) => lib("Flow<SendBody>::proceed", || f.proceed()).is_some(),
            Sender::Call(c) => lib("Call<WithBody>::into_receive", || c.into_receive()).is_ok(),
        }
    }
    pub fn direct(&mut self, n: usize) -> Option<Result<(), Error>> {
        match self {
            Sender::Flow(f) => Some(lib("Flow<SendBody>::consume_direct_write", || f.consume_direct_write(n))),
            Sender::Call(_) => None,
        }
    }
    pub fn max_input(&mut self, n: usize) -> Option<usize> {
        match self {
            Sender::Flow(f) => Some(lib("Flow<SendBody>::calculate_max_input", || f.calculate_max_input(n))),
            Sender::Call(_) => None,
        }
    }
    pub fn is_chunked(&mut self) -> Option<bool> {
        match self {
            Sender::Flow(f) => Some(lib("Flow<SendBody>::is_chunked", || f.is_chunked())),
            Sender::Call(_) => None,
        }
    }
}

#[derive(Clone, Copy, PartialEq, Eq, Debug)]
pub enum SendFraming {
    /// no framing header supplied: the library defaults to chunked
    DefaultChunked,
    /// caller supplied `transfer-encoding: chunked`
    ExplicitChunked,
    /// caller supplied a mixed-case `Transfer-Encoding: Chunked`, optionally with a
    /// Content-Length next to it (chunked wins)
    ExplicitChunkedVariant(u8),
    /// caller supplied `content-length: n`
    Sized(u64),
    /// `content-length: n` next to a transfer coding other than chunked
    SizedWithOtherCoding(u64, u8),
}

/// Reach the body-sending state through the real API (setup; not the observed part).
/// Returns the sender and the head bytes that were written on the way.
pub fn reach_sender(ctx: &mut Ctx, framing: SendFraming, use_call: bool, method: &str, despite: bool) -> Result<(Sender, Vec<u8>), String> {
    reach_sender_ex(ctx, framing, use_call, method, despite, false)
}

/// `via_added`: the framing header is supplied through Flow<Prepare>::header() (the caller's
/// amendment) instead of on the original request (flow API only).
pub fn reach_sender_ex(ctx: &mut Ctx, framing: SendFraming, use_call: bool, method: &str, despite: bool, via_added: bool) -> Result<(Sender, Vec<u8>), String> {
    let mut headers: Vec<Hdr> = Vec::new();
    match framing {
        SendFraming::DefaultChunked => {}
        SendFraming::ExplicitChunked => headers.push(("transfer-encoding".into(), b"chunked".to_vec())),
        SendFraming::ExplicitChunkedVariant(v) => {
            let spelling: &[u8] = match v % 3 {
                0 => b"Chunked",
                1 => b"CHUNKED",
                _ => b"chunked",
            };
            if v / 3 % 2 == 1 {
                headers.push(("content-length".into(), b"7".to_vec()));
            }
            headers.push(("Transfer-Encoding".into(), spelling.to_vec()));
            if v / 6 % 2 == 1 {
                headers.push(("Content-Length".into(), b"7".to_vec()));
                headers.retain(|(n, _)| n != "content-length");
            }
        }
        SendFraming::Sized(n) => headers.push(("content-length".into(), n.to_string().into_bytes())),
        SendFraming::SizedWithOtherCoding(n, v) => {
            // a transfer coding that is not "chunked" does not change the framing
            headers.push(("transfer-encoding".into(), [&b"gzip"[..], b"chunked-v2", b"xchunked", b"chunke"][(v % 4) as usize].to_vec()));
            headers.push(("content-length".into(), n.to_string().into_bytes()));
        }
    }
    // 1 in 8 flow-API senders lives on a flow produced by following a redirect: the new request
    // is body-less (GET), so the body is sent despite the method and the framing header can only
    // come from the caller's amendment
    let via_redirect = !use_call && ctx.chance(1, 8);
    let via_added = (via_added || via_redirect) && !use_call;
    let despite = despite || via_redirect;
    // the caller's amendment carries the framing header; a Content-Length that accompanies a
    // chunked coding stays on the original request (chunked still wins)
    let added: Vec<Hdr> = if via_added {
        let chunked_kind = !matches!(framing, SendFraming::Sized(_) | SendFraming::SizedWithOtherCoding(..));
        let (a, b): (Vec<Hdr>, Vec<Hdr>) = std::mem::take(&mut headers).into_iter().partition(|(n, _)| !chunked_kind || n.eq_ignore_ascii_case("transfer-encoding"));
        headers = b;
        a
    } else {
        Vec::new()
    };
    if ctx.chance(1, 4) {
        headers.push(("host".into(), b"a.test".to_vec()));
    }
    let req = build_request(method, 11, "http://a.test/upload", &headers);
    let mut buf = vec![0u8; 4096];
    if use_call {
        let mut c = lib("Call::with_body", || Call::with_body(req)).map_err(|e| format!("with_body: {e}"))?;
        ctx.steps += 1;
        let (i, n) = lib("Call<WithBody>::write", || c.write(&[], &mut buf)).map_err(|e| format!("head write: {e}"))?;
        if i != 0 {
            return Err("head write consumed input".into());
        }
        Ok((Sender::Call(c), buf[..n].to_vec()))
    } else {
        let mut f = lib("Flow::new", || Flow::new(req)).map_err(|e| format!("Flow::new: {e}"))?;
        if via_redirect {
            f = redirected_prepare(method, &headers)?;
            ctx.count("p:sender_on_redirected_flow");
        }
        for (n, v) in &added {
            lib("Flow<Prepare>::header", || f.header(n.as_str(), v.as_slice())).map_err(|e| format!("header: {e}"))?;
        }
        if despite {
            lib("send_body_despite_method", || f.send_body_despite_method());
        }
        let mut f = lib("Flow<Prepare>::proceed", || f.proceed());
        ctx.steps += 1;
        let n = lib("Flow<SendRequest>::write", || f.write(&mut buf)).map_err(|e| format!("head write: {e}"))?;
        if ctx.chance(1, 4) {
            // a caller that writes "until nothing more comes out"
            let mut extra = [0u8; 64];
            let k = lib("Flow<SendRequest>::write", || f.write(&mut extra)).map_err(|e| format!("head write after completion: {e}"))?;
            // anything emitted here is returned behind the head (C03 judges it; the other checks
            // go on and judge the body writes)
            let mut head = buf[..n].to_vec();
            head.extend_from_slice(&extra[..k]);
            return match lib("Flow<SendRequest>::proceed", || f.proceed()) {
                Ok(Some(SendRequestResult::SendBody(b))) => Ok((Sender::Flow(b), head)),
                Ok(Some(_)) => Err("unexpected state after head".into()),
                Ok(None) => Err("head not complete after 4 KiB write".into()),
                Err(e) => Err(format!("proceed: {e}")),
            };
        }
        match lib("Flow<SendRequest>::proceed", || f.proceed()) {
            Ok(Some(SendRequestResult::SendBody(b))) => Ok((Sender::Flow(b), buf[..n].to_vec())),
            Ok(Some(_)) => Err("unexpected state after head".into()),
            Ok(None) => Err("head not complete after 4 KiB write".into()),
            Err(e) => Err(format!("proceed: {e}")),
        }
    }
}

/// A flow in its Prepare state that was produced by `as_new_flow` after a 302 whose Location
/// points at /upload. The original request carried `headers` (framing headers are what a
/// redirect suppresses), the method is `method` when the redirect keeps it (GET/HEAD) - callers
/// pass body-less methods with despite-method, or rely on the 307 variant for others.
fn redirected_prepare(method: &str, headers: &[Hdr]) -> Result<Flow<(), fs::Prepare>, String> {
    use ureq_proto::client::flow::{RecvResponseResult, RedirectAuthHeaders};
    // the first request: a plain GET (or the same body-less method) without framing headers
    let first_method = if matches!(method, "GET" | "HEAD") { method } else { "GET" };
    let plain: Vec<Hdr> = headers.iter().filter(|(n, _)| !n.eq_ignore_ascii_case("content-length") && !n.eq_ignore_ascii_case("transfer-encoding")).cloned().collect();
    let req = build_request(first_method, 11, "http://a.test/start", &plain);
    let f = lib("Flow::new", || Flow::new(req)).map_err(|e| e.to_string())?;
    let mut f = lib("Flow<Prepare>::proceed", || f.proceed());
    let mut buf = vec![0u8; 4096];
    lib("Flow<SendRequest>::write", || f.write(&mut buf)).map_err(|e| e.to_string())?;
    let mut r = match lib("Flow<SendRequest>::proceed", || f.proceed()) {
        Ok(Some(SendRequestResult::RecvResponse(r))) => r,
        _ => return Err("redirected_prepare: no RecvResponse".into()),
    };
    lib("Flow<RecvResponse>::try_response", || r.try_response(b"HTTP/1.1 302 Found\r\nLocation: /upload\r\nContent-Length: 0\r\n\r\n").map(|x| x.0)).map_err(|e| e.to_string())?;
    let mut rd = match lib("Flow<RecvResponse>::proceed", || r.proceed()) {
        Some(RecvResponseResult::Redirect(rd)) => rd,
        _ => return Err("redirected_prepare: no Redirect".into()),
    };
    match lib("Flow<Redirect>::as_new_flow", || rd.as_new_flow(RedirectAuthHeaders::Never)) {
        Ok(Some(nf)) => Ok(nf),
        other => Err(format!("redirected_prepare: as_new_flow -> {:?}", other.map(|o| o.is_some()))),
    }
}

// ------------------------------------------------------------------------- flow state holder

/// A flow in whatever typestate it currently is.
pub enum FlowSt {
    Prepare(Flow<(), fs::Prepare>),
    SendRequest(Flow<(), fs::SendRequest>),
    Await100(Flow<(), fs::Await100>),
    SendBody(Flow<(), fs::SendBody>),
    RecvResponse(Flow<(), fs::RecvResponse>),
    RecvBody(Flow<(), fs::RecvBody>),
    Redirect(Flow<(), fs::Redirect>),
    Cleanup(Flow<(), fs::Cleanup>),
    /// consumed by a premature proceed() or an error
    Gone,
}

impl FlowSt {
    pub fn name(&self) -> &'static str {
        match self {
            FlowSt::Prepare(_) => "Prepare",
            FlowSt::SendRequest(_) => "SendRequest",
            FlowSt::Await100(_) => "Await100",
            FlowSt::SendBody(_) => "SendBody",
            FlowSt::RecvResponse(_) => "RecvResponse",
            FlowSt::RecvBody(_) => "RecvBody",
            FlowSt::Redirect(_) => "Redirect",
            FlowSt::Cleanup(_) => "Cleanup",
            FlowSt::Gone => "Gone",
        }
    }
    pub fn ord(&self) -> u64 {
        match self {
            FlowSt::Prepare(_) => 0,
            FlowSt::SendRequest(_) => 1,
            FlowSt::Await100(_) => 2,
            FlowSt::SendBody(_) => 3,
            FlowSt::RecvResponse(_) => 4,
            FlowSt::RecvBody(_) => 5,
            FlowSt::Redirect(_) => 6,
            FlowSt::Cleanup(_) => 7,
            FlowSt::Gone => 8,
        }
    }
}

pub fn from_send_request(r: SendRequestResult<()>) -> FlowSt {
    match r {
        SendRequestResult::Await100(f) => FlowSt::Await100(f),
        SendRequestResult::SendBody(f) => FlowSt::SendBody(f),
        SendRequestResult::RecvResponse(f) => FlowSt::RecvResponse(f),
    }
}

pub fn from_await100(r: Await100Result<()>) -> FlowSt {
    match r {
        Await100Result::SendBody(f) => FlowSt::SendBody(f),
        Await100Result::RecvResponse(f) => FlowSt::RecvResponse(f),
    }
}

pub fn from_recv_response(r: RecvResponseResult<()>) -> FlowSt {
    match r {
        RecvResponseResult::RecvBody(f) => FlowSt::RecvBody(f),
        RecvResponseResult::Redirect(f) => FlowSt::Redirect(f),
        RecvResponseResult::Cleanup(f) => FlowSt::Cleanup(f),
    }
}

pub fn from_recv_body(r: RecvBodyResult<()>) -> FlowSt {
    match r {
        RecvBodyResult::Redirect(f) => FlowSt::Redirect(f),
        RecvBodyResult::Cleanup(f) => FlowSt::Cleanup(f),
    }
}

pub fn err_name(e: &Error) -> &'static str {
    match e {
        Error::BadHeader(_) => "BadHeader",
        Error::UnsupportedVersion => "UnsupportedVersion",
        Error::MethodVersionMismatch(..) => "MethodVersionMismatch",
        Error::TooManyHostHeaders => "TooManyHostHeaders",
        Error::TooManyContentLengthHeaders => "TooManyContentLengthHeaders",
        Error::BadHostHeader => "BadHostHeader",
        Error::BadContentLengthHeader => "BadContentLengthHeader",
        Error::MethodForbidsBody(_) => "MethodForbidsBody",
        Error::MethodRequiresBody(_) => "MethodRequiresBody",
        Error::OutputOverflow => "OutputOverflow",
        Error::ChunkLenNotAscii => "ChunkLenNotAscii",
        Error::ChunkLenNotANumber => "ChunkLenNotANumber",
        Error::ChunkExpectedCrLf => "ChunkExpectedCrLf",
        Error::BodyContentAfterFinish => "BodyContentAfterFinish",
        Error::BodyLargerThanContentLength => "BodyLargerThanContentLength",
        Error::UnfinishedRequest => "UnfinishedRequest",
        Error::HttpParseFail(_) => "HttpParseFail",
        Error::HttpParseTooManyHeaders => "HttpParseTooManyHeaders",
        Error::MissingResponseVersion => "MissingResponseVersion",
        Error::ResponseMissingStatus => "ResponseMissingStatus",
        Error::ResponseInvalidStatus => "ResponseInvalidStatus",
        Error::IncompleteResponse => "IncompleteResponse",
        Error::NoLocationHeader => "NoLocationHeader",
        Error::BadLocationHeader(_) => "BadLocationHeader",
        Error::HeadersWith100 => "HeadersWith100",
        Error::BodyIsChunked => "BodyIsChunked",
        Error::RequestMissingMethod => "RequestMissingMethod",
        Error::RequestInvalidMethod => "RequestInvalidMethod",
    }
}
