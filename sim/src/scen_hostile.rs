//! Scenario `hostile` (C12): fault sequences on the server-to-client byte stream.
//!
//! sub 0: valid exchanges with 1..4 grammar-aware mutations (bit flip, delete, duplicate,
//!        splice, number bloat, hex bloat, stray CR/LF, header flood, truncation) under random
//!        arrival and buffer schedules, for every request configuration;
//! sub 1: byte strings over a protocol alphabet, enumerated by the run index (every string up to
//!        length 3 in quick, up to length 4 in thorough), fed to each server-facing call;
//! sub 2: oversize items (>= 64 KiB field name, 30-digit length, 17-digit chunk size, > 128
//!        fields, five close conditions at once).
//!
//! Oracle: every call returns (a panic is a violation; the step budget and the watchdog catch
//! hangs), counts stay within what was offered, produced bytes are an in-order copy of consumed
//! bytes, and state-advancing calls made afterwards do not panic either.

use ureq_proto::client::flow::RedirectAuthHeaders;

use crate::ctx::{lib, set_observed, Ctx, R};
use crate::drive::{from_await100, from_recv_body, from_recv_response, FlowSt};
use crate::gen::gen_arrival;
use crate::refs::Framing as RF;
use crate::reqgen::{gen_valid_req, Framing, ReqCfg};
use crate::scen_exchange::{build_resp, continue_100, gen_req_body, make_prepare, ClSpec, RespSpec};
use crate::world::{AwaitPolicy, Exchange, FixedStream, Obs, Policy, ServerPlan, Terminal};
use crate::{ensure, fail};

pub const ALPHABET: &[u8] = b"HTP/1.023 \r\n:;,afFx-\t\x80\x00";

fn is_subsequence(needle: &[u8], hay: &[u8]) -> bool {
    let mut i = 0;
    for &b in hay {
        if i < needle.len() && needle[i] == b {
            i += 1;
        }
    }
    i == needle.len()
}

/// After server input (and possibly an error): advancing calls must not panic.
fn poke(ctx: &mut Ctx, st: FlowSt) {
    let mut st = st;
    for _ in 0..6 {
        ctx.steps += 1;
        st = match st {
            FlowSt::Await100(f) => {
                let _ = lib("Flow<Await100>::can_keep_await_100", || f.can_keep_await_100());
                match lib("Flow<Await100>::proceed", || f.proceed()) {
                    Ok(n) => from_await100(n),
                    Err(_) => return,
                }
            }
            FlowSt::SendBody(mut f) => {
                let mut out = [0u8; 64];
                let _ = lib("Flow<SendBody>::write", || f.write(b"x", &mut out));
                let _ = lib("Flow<SendBody>::write", || f.write(&[], &mut out));
                let _ = lib("Flow<SendBody>::can_proceed", || f.can_proceed());
                match lib("Flow<SendBody>::proceed", || f.proceed()) {
                    Some(n) => FlowSt::RecvResponse(n),
                    None => return,
                }
            }
            FlowSt::RecvResponse(mut f) => {
                let _ = lib("Flow<RecvResponse>::try_response", || f.try_response(b"").map(|r| r.0));
                let _ = lib("Flow<RecvResponse>::can_proceed", || f.can_proceed());
                match lib("Flow<RecvResponse>::proceed", || f.proceed()) {
                    Some(n) => from_recv_response(n),
                    None => return,
                }
            }
            FlowSt::RecvBody(mut f) => {
                let mut out = [0u8; 16];
                let _ = lib("Flow<RecvBody>::read", || f.read(b"", &mut out));
                let _ = lib("Flow<RecvBody>::body_mode", || f.body_mode());
                let _ = lib("Flow<RecvBody>::is_on_chunk_boundary", || f.is_on_chunk_boundary());
                let _ = lib("Flow<RecvBody>::can_proceed", || f.can_proceed());
                match lib("Flow<RecvBody>::proceed", || f.proceed()) {
                    Some(n) => from_recv_body(n),
                    None => return,
                }
            }
            FlowSt::Redirect(mut f) => {
                let _ = lib("Flow<Redirect>::status", || f.status());
                let _ = lib("Flow<Redirect>::must_close_connection", || f.must_close_connection());
                let _ = lib("Flow<Redirect>::close_reason", || f.close_reason());
                let nf = lib("Flow<Redirect>::as_new_flow", || f.as_new_flow(RedirectAuthHeaders::SameHost));
                let _ = lib("repeat_Flow<Redirect>::as_new_flow", || f.as_new_flow(RedirectAuthHeaders::Never).map(|o| o.is_some()));
                if let Ok(Some(nf)) = nf {
                    // whatever target the hostile Location produced becomes the base of the next hop
                    follow_once(ctx, nf);
                }
                FlowSt::Cleanup(lib("Flow<Redirect>::proceed", || f.proceed()))
            }
            FlowSt::Cleanup(f) => {
                let _ = lib("Flow<Cleanup>::must_close_connection", || f.must_close_connection());
                let _ = lib("Flow<Cleanup>::close_reason", || f.close_reason());
                return;
            }
            _ => return,
        };
    }
}

/// Drive the flow produced by a (possibly hostile) redirect through one canned exchange that
/// answers with a relative redirect, and resolve that one too. Nothing here may panic.
fn follow_once(ctx: &mut Ctx, nf: ureq_proto::client::flow::Flow<(), ureq_proto::client::flow::state::Prepare>) {
    use ureq_proto::client::flow::{RecvResponseResult, SendRequestResult};
    ctx.count("p:followed_hostile_redirect");
    let mut buf = vec![0u8; 4096];
    let mut f = lib("Flow<Prepare>::proceed", || nf.proceed());
    if lib("Flow<SendRequest>::write", || f.write(&mut buf)).is_err() {
        return;
    }
    let mut r = match lib("Flow<SendRequest>::proceed", || f.proceed()) {
        Ok(Some(SendRequestResult::RecvResponse(r))) => r,
        _ => return,
    };
    let resp: &[u8] = *ctx.pick(&[&b"HTTP/1.1 302 Found\r\nLocation: ../x?y\r\n\r\n"[..], b"HTTP/1.1 301 Moved\r\nLocation: \r\n\r\n", b"HTTP/1.1 307 T\r\nLocation: ?q\r\n\r\n", b"HTTP/1.1 303 S\r\nLocation: //c.test\r\n\r\n"]);
    if lib("Flow<RecvResponse>::try_response", || r.try_response(resp).map(|x| x.0)).is_err() {
        return;
    }
    if let Some(RecvResponseResult::Redirect(mut rd)) = lib("Flow<RecvResponse>::proceed", || r.proceed()) {
        let _ = lib("Flow<Redirect>::as_new_flow", || rd.as_new_flow(RedirectAuthHeaders::SameHost).map(|o| o.is_some()));
    }
}

fn structural_pos(ctx: &mut Ctx, s: &[u8]) -> usize {
    if s.is_empty() {
        return 0;
    }
    if ctx.chance(1, 3) {
        return ctx.draw_usize(s.len());
    }
    // bias to CR, LF, ':', digits, the first line
    let cands: Vec<usize> = s.iter().enumerate().filter(|(i, c)| *i < 20 || matches!(**c, b'\r' | b'\n' | b':' | b';' | b' ' | b'0'..=b'9')).map(|(i, _)| i).collect();
    if cands.is_empty() {
        ctx.draw_usize(s.len())
    } else {
        cands[ctx.draw_usize(cands.len())]
    }
}

fn mutate(ctx: &mut Ctx, s: &mut Vec<u8>) -> &'static str {
    match ctx.draw(12) {
        11 => {
            // bare LF line ends (tolerated by many parsers)
            s.retain(|c| *c != b'\r');
            "f:hostile_bare_lf"
        }
        0 | 1 => {
            if !s.is_empty() {
                let p = structural_pos(ctx, s);
                s[p] ^= 1 << ctx.draw(8);
            }
            "f:corrupt_flip"
        }
        2 => {
            if !s.is_empty() {
                let p = structural_pos(ctx, s);
                s.remove(p);
            }
            "f:corrupt_delete"
        }
        3 => {
            if !s.is_empty() {
                let p = structural_pos(ctx, s);
                let b = s[p];
                s.insert(p, b);
            }
            "f:corrupt_dup"
        }
        4 => {
            if s.len() > 2 {
                let a = ctx.draw_usize(s.len());
                let l = ctx.range(1, (s.len() - a).min(40));
                let piece = s[a..a + l].to_vec();
                let at = ctx.draw_usize(s.len());
                for (i, b) in piece.into_iter().enumerate() {
                    s.insert(at + i, b);
                }
            }
            "f:corrupt_splice"
        }
        5 => {
            // bloat a decimal number
            if let Some(p) = s.iter().position(|c| c.is_ascii_digit()) {
                let p = if ctx.flip() { p } else { s.iter().rposition(|c| c.is_ascii_digit()).unwrap_or(p) };
                for _ in 0..ctx.range(18, 30) {
                    s.insert(p, b'9');
                }
            }
            "f:hostile_number_bloat"
        }
        6 => {
            // bloat a chunk size line: 17 hex digits after the head
            if let Some(h) = crate::refs::find(s, b"\r\n\r\n") {
                let at = (h + 4).min(s.len());
                for (i, b) in b"fffffffffffffffff".iter().enumerate() {
                    s.insert(at + i, *b);
                }
            }
            "f:hostile_hex_bloat"
        }
        7 => {
            let p = structural_pos(ctx, s);
            let ins: &[u8] = *ctx.pick(&[&b"\r"[..], b"\n", b"\r\n", b"\r\r\n", b"\n\n"]);
            for (i, b) in ins.iter().enumerate() {
                s.insert((p + i).min(s.len()), *b);
            }
            "f:hostile_stray_crlf"
        }
        8 => {
            // header flood right after the status line
            if let Some(p) = crate::refs::find(s, b"\r\n") {
                let n = ctx.range(125, 140);
                let mut flood = Vec::new();
                for i in 0..n {
                    flood.extend_from_slice(format!("x-{}: y\r\n", i).as_bytes());
                }
                let tail = s.split_off(p + 2);
                s.extend_from_slice(&flood);
                s.extend_from_slice(&tail);
            }
            "f:hostile_header_flood"
        }
        9 => {
            if !s.is_empty() {
                let p = ctx.draw_usize(s.len());
                s.truncate(p);
            }
            "f:conn_close"
        }
        _ => {
            // garbage over the protocol alphabet
            let p = structural_pos(ctx, s);
            let n = ctx.range(1, 8);
            for i in 0..n {
                let b = *ctx.pick(ALPHABET);
                s.insert((p + i).min(s.len()), b);
            }
            "f:hostile_garbage"
        }
    }
}

fn check_obs(obs: &Obs, stream: &[u8]) -> R {
    // produced bytes are an in-order copy of consumed bytes
    let consumed = obs.consumed.min(stream.len());
    if !is_subsequence(&obs.resp_body, &stream[..consumed]) {
        fail!("C12.output_not_from_input", "", "{} body bytes were produced that are not an in-order copy of the {} consumed server bytes", obs.resp_body.len(), consumed);
    }
    ensure!(obs.consumed <= stream.len(), "C12.count_out_of_bounds", "consumed {} of a {}-byte stream", obs.consumed, stream.len());
    if obs.budget_exhausted {
        fail!("C12.hang", "", "the exchange did not come to rest within the step budget (state path {})", obs.state_path());
    }
    Ok(())
}

pub fn c12(ctx: &mut Ctx) -> R {
    match ctx.sub {
        1 => c12_alphabet(ctx),
        2 => c12_oversize(ctx),
        _ => c12_mutated(ctx),
    }
}

fn gen_base_exchange(ctx: &mut Ctx) -> (ReqCfg, Vec<u8>, Vec<u8>, bool) {
    let cfg = gen_valid_req(ctx, true, true);
    let body = gen_req_body(ctx, &cfg, true);
    let plan = loop {
        let status = crate::gen::gen_status(ctx);
        let kind = ctx.draw(4);
        let (cl, te) = match kind {
            0 => (ClSpec::Absent, None),
            1 => (ClSpec::Num(ctx.range(0, 60) as u64), None),
            2 => (ClSpec::Absent, Some(*ctx.pick(&["chunked", "chunked", "gzip, chunked", "gzip, , chunked", ",chunked", "Chunk", "c", ""]))),
            _ => (ClSpec::Num(ctx.range(0, 9) as u64), None),
        };
        // redirects point anywhere, also nowhere
        let (location, location_raw): (Vec<String>, Vec<Vec<u8>>) = if (300..400).contains(&status) && ctx.chance(2, 3) {
            match ctx.draw(4) {
                0 => (vec!["/x".into()], vec![]),
                1 => (vec![(*ctx.pick(&["http://b.test:99999/x", "http://999.1.1.1/x", "http://[::1/x", "//", "http://b.test/../../..", "../up?x#y", "HTTPS://B.TEST"])).to_string()], vec![]),
                2 => (vec![], vec![(0..ctx.range(0, 12)).map(|_| *ctx.pick(ALPHABET)).filter(|c| *c != 0 && *c != b'\r' && *c != b'\n').collect()]),
                _ => (vec!["http://b.test/next".into()], vec![]),
            }
        } else {
            (vec![], vec![])
        };
        let spec = RespSpec { status, http11: kind == 2 || ctx.chance(3, 4), cl, te, conn: if ctx.chance(1, 4) { vec!["close"] } else { vec![] }, generic_fields: ctx.range(0, 4), location, location_raw, close_len: ctx.range(0, 50) };
        let p = build_resp(ctx, &cfg.method, &spec);
        if !matches!(p.truth, RF::DontCare | RF::Error) {
            break p;
        }
    };
    let mut stream = Vec::new();
    if cfg.expect && ctx.flip() {
        stream.extend_from_slice(&continue_100(ctx));
    }
    stream.extend_from_slice(&plan.bytes());
    if plan.truth != RF::Close && ctx.flip() {
        stream.extend_from_slice(b"HTTP/1.1 200 OK\r\nContent-Length: 0\r\n\r\n");
    }
    (cfg, body, stream, plan.truth == RF::Close)
}

fn run_stream(ctx: &mut Ctx, cfg: &ReqCfg, body: &[u8], stream: &[u8], close_after: bool, one_shot: bool) -> R {
    let start = match make_prepare(cfg) {
        Ok(f) => f,
        Err(e) => fail!("FOREIGN", "", "cannot build flow: {}", e),
    };
    let arrivals = if one_shot { vec![stream.len()] } else { gen_arrival(ctx, stream.len(), &[], 200).0 };
    let await_policy = if cfg.expect && cfg.body_due() {
        match ctx.draw(3) {
            0 => AwaitPolicy::GiveUpAtOnce,
            1 => AwaitPolicy::Timer(*ctx.pick(&[0u64, 10_000, 10_000_000_000])),
            _ => AwaitPolicy::Timer(60_000_000_000),
        }
    } else {
        AwaitPolicy::GiveUpAtOnce
    };
    let mut policy = if one_shot { Policy::canonical(await_policy) } else { Policy::draw(ctx, await_policy) };
    policy.poll_past_decision = ctx.chance(1, 3);
    set_observed(true);
    let ex = Exchange { prop: "C12", body, policy, server: ServerPlan { msgs: vec![], close_after }, fixed_stream: Some(FixedStream { stream, consumed: 0, visible: 0, arrivals }) };
    let mut obs = ex.run(ctx, start)?;
    check_obs(&obs, stream)?;
    ctx.sig(obs.schedule_sig());
    ctx.sig3(obs.edges.len() as u64, match &obs.terminal { Terminal::Error(..) => 1, Terminal::Stuck(_) => 2, Terminal::Redirect(_) => 3, Terminal::Cleanup(_) => 4 }, obs.calls.min(60) as u64);
    match &obs.terminal {
        Terminal::Error(s, _) => {
            ctx.count("p:ended_in_error");
            ctx.cell(match *s {
                "Await100" => 0,
                "RecvResponse" => 1,
                "RecvBody" => 2,
                _ => 3,
            });
        }
        Terminal::Stuck(_) => ctx.count("p:ended_waiting_for_more"),
        _ => ctx.count("p:completed_despite_damage"),
    }
    // state-advancing calls afterwards
    if let Some(st) = obs.leftover.take() {
        poke(ctx, st);
    }
    match obs.terminal {
        Terminal::Redirect(f) => poke(ctx, FlowSt::Redirect(f)),
        Terminal::Cleanup(f) => poke(ctx, FlowSt::Cleanup(f)),
        _ => {}
    }
    ctx.nontrivial = true;
    Ok(())
}

fn c12_mutated(ctx: &mut Ctx) -> R {
    set_observed(false);
    let (cfg, body, mut stream, close_after) = gen_base_exchange(ctx);
    let n = ctx.range(1, 4);
    let mut kinds = Vec::new();
    for _ in 0..n {
        let k = mutate(ctx, &mut stream);
        ctx.count(k);
        kinds.push(k);
    }
    let one_shot = ctx.chance(1, 4);
    ctx.sample(|| format!("{} body={} | mutations {:?} | stream {} bytes: {:?}", cfg.summary(), body.len(), kinds, stream.len(), crate::json::show_bytes(&stream[..stream.len().min(160)])));
    run_stream(ctx, &cfg, &body, &stream, close_after, one_shot)
}

/// String number `k` in length-lexicographic order over the alphabet.
pub fn nth_string(mut k: u64) -> Vec<u8> {
    let a = ALPHABET.len() as u64;
    let mut len = 0usize;
    let mut block = 1u64;
    while k >= block {
        k -= block;
        block *= a;
        len += 1;
    }
    let mut v = vec![0u8; len];
    for i in (0..len).rev() {
        v[i] = ALPHABET[(k % a) as usize];
        k /= a;
    }
    v
}

pub fn strings_up_to(len: u32) -> u64 {
    let a = ALPHABET.len() as u64;
    (0..=len).map(|l| a.pow(l)).sum()
}

fn c12_alphabet(ctx: &mut Ctx) -> R {
    set_observed(false);
    // three sub-batches interleave: this one sees every third index
    let k = ctx.index / 3;
    let limit = if ctx.tier_thorough { strings_up_to(4) } else { strings_up_to(3) };
    let s = if k < limit {
        ctx.count("p:enumerated_string");
        nth_string(k)
    } else {
        // beyond the enumerated range: drawn strings of length 5..8
        let n = ctx.range(5, 8);
        (0..n).map(|_| *ctx.pick(ALPHABET)).collect()
    };
    // target call: the request decides which server-facing call sees the string first
    let target = ctx.draw(5);
    let (cfg, body, prefix, close_after): (ReqCfg, Vec<u8>, Vec<u8>, bool) = match target {
        0 => {
            // awaiting 100
            let mut c = gen_valid_req(ctx, false, false);
            c.method = "POST".into();
            c.version = 11;
            c.orig.retain(|(n, _)| n != "content-length" && n != "transfer-encoding");
            c.framing = Framing::None;
            c.expect = true;
            c.orig.push(("expect".into(), b"100-continue".to_vec()));
            (c, b"data".to_vec(), Vec::new(), false)
        }
        1 => (simple_get(ctx), Vec::new(), Vec::new(), false),
        2 => (simple_get(ctx), Vec::new(), b"HTTP/1.1 200 OK\r\nTransfer-Encoding: chunked\r\n\r\n".to_vec(), false),
        3 => (simple_get(ctx), Vec::new(), b"HTTP/1.1 200 OK\r\nContent-Length: 6\r\n\r\n".to_vec(), false),
        _ => (simple_get(ctx), Vec::new(), b"HTTP/1.0 200 OK\r\n\r\n".to_vec(), true),
    };
    let mut stream = prefix;
    stream.extend_from_slice(&s);
    if ctx.flip() {
        stream.extend_from_slice(b"HTTP/1.1 204 No Content\r\n\r\n");
    }
    ctx.cell(4 + target as u32);
    ctx.sample(|| format!("string #{} {:?} offered to {}", k, crate::json::show_bytes(&s), ["try_read_100", "try_response", "read (chunked)", "read (content-length)", "read (close-delimited)"][target as usize]));
    let one_shot = ctx.flip();
    let mut cfg = cfg;
    if target == 0 {
        cfg.despite = false;
    }
    run_stream(ctx, &cfg, &body, &stream, close_after, one_shot)?;
    Ok(())
}

fn simple_get(ctx: &mut Ctx) -> ReqCfg {
    let mut c = gen_valid_req(ctx, false, false);
    c.method = (*ctx.pick(&["GET", "GET", "DELETE", "OPTIONS"])).into();
    c.version = 11;
    c.orig.retain(|(n, _)| n != "content-length" && n != "transfer-encoding");
    c.framing = Framing::None;
    c.despite = false;
    c
}

fn c12_oversize(ctx: &mut Ctx) -> R {
    set_observed(false);
    let kind = ctx.draw(8);
    let (cfg, body, stream, close_after): (ReqCfg, Vec<u8>, Vec<u8>, bool) = match kind {
        0 => {
            // a field name of >= 64 KiB
            let n = *ctx.pick(&[65_535usize, 65_536, 65_537, 70_000]);
            let mut s = b"HTTP/1.1 200 OK\r\n".to_vec();
            s.extend(std::iter::repeat(b'a').take(n));
            s.extend_from_slice(b": v\r\nContent-Length: 0\r\n\r\n");
            ctx.count("f:hostile_giant_field_name");
            (simple_get(ctx), vec![], s, false)
        }
        1 => {
            let mut s = b"HTTP/1.1 200 OK\r\nContent-Length: ".to_vec();
            s.extend(std::iter::repeat(b'9').take(ctx.range(20, 40)));
            s.extend_from_slice(b"\r\n\r\nbody");
            ctx.count("f:hostile_number_bloat");
            (simple_get(ctx), vec![], s, false)
        }
        2 => {
            let mut s = b"HTTP/1.1 200 OK\r\nTransfer-Encoding: chunked\r\n\r\n".to_vec();
            s.extend(std::iter::repeat(b'f').take(ctx.range(16, 19)));
            s.extend_from_slice(b"\r\ndata\r\n0\r\n\r\n");
            ctx.count("f:hostile_hex_bloat");
            (simple_get(ctx), vec![], s, false)
        }
        3 => {
            let mut s = b"HTTP/1.1 200 OK\r\n".to_vec();
            for i in 0..ctx.range(127, 135) {
                s.extend_from_slice(format!("h{}: v\r\n", i).as_bytes());
            }
            s.extend_from_slice(b"Content-Length: 0\r\n\r\n");
            ctx.count("f:hostile_header_flood");
            (simple_get(ctx), vec![], s, false)
        }
        4 => {
            // five close conditions at once
            let mut c = gen_valid_req(ctx, false, false);
            c.method = "POST".into();
            c.version = 10;
            c.orig.retain(|(n, _)| n != "content-length" && n != "transfer-encoding" && n != "connection");
            c.framing = Framing::None;
            c.expect = true;
            c.orig.push(("expect".into(), b"100-continue".to_vec()));
            c.orig.push(("connection".into(), b"close".to_vec()));
            let s = b"HTTP/1.0 403 Forbidden\r\nConnection: close\r\n\r\ndenied".to_vec();
            ctx.count("f:hostile_five_close_conditions");
            (c, b"data".to_vec(), s, true)
        }
        5 => {
            // a giant status line / reason phrase
            let mut s = b"HTTP/1.1 200 ".to_vec();
            s.extend(std::iter::repeat(b'R').take(ctx.range(60_000, 70_000)));
            s.extend_from_slice(b"\r\nContent-Length: 0\r\n\r\n");
            ctx.count("f:hostile_giant_reason");
            (simple_get(ctx), vec![], s, false)
        }
        7 => {
            // interim responses nobody asked for: unsolicited, duplicated, with fields, then silence
            let mut s = Vec::new();
            for _ in 0..ctx.range(1, 3) {
                s.extend_from_slice(*ctx.pick(&[&b"HTTP/1.1 100 Continue\r\n\r\n"[..], b"HTTP/1.1 100 \r\n\r\n", b"HTTP/1.1 100 Continue\r\nX: y\r\n\r\n", b"HTTP/1.1 102 Processing\r\n\r\n", b"HTTP/1.0 100 Continue\r\n\r\n"]));
            }
            if ctx.flip() {
                s.extend_from_slice(b"HTTP/1.1 200 OK\r\nContent-Length: 2\r\n\r\nok");
            }
            ctx.count("f:hostile_unsolicited_interim");
            let mut c = simple_get(ctx);
            if ctx.flip() {
                c.method = "POST".into();
                if ctx.flip() {
                    c.expect = true;
                    c.orig.push(("expect".into(), b"100-continue".to_vec()));
                }
            }
            (c, b"data".to_vec(), s, false)
        }
        _ => {
            // a giant field value and a giant chunk extension
            let mut s = b"HTTP/1.1 200 OK\r\nX: ".to_vec();
            s.extend(std::iter::repeat(b'v').take(ctx.range(60_000, 70_000)));
            s.extend_from_slice(b"\r\nTransfer-Encoding: chunked\r\n\r\n4;");
            s.extend(std::iter::repeat(b'e').take(ctx.range(10, 200)));
            s.extend_from_slice(b"\r\ndata\r\n0\r\n\r\n");
            ctx.count("f:hostile_giant_value");
            (simple_get(ctx), vec![], s, false)
        }
    };
    let mut cfg = cfg;
    cfg.despite = false;
    ctx.cell(9 + kind as u32);
    ctx.sample(|| format!("oversize kind {}: {} -> stream {} bytes", kind, cfg.summary(), stream.len()));
    let one_shot = ctx.chance(1, 2);
    run_stream(ctx, &cfg, &body, &stream, close_after, one_shot)
}
