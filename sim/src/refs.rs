//! Reference models: the oracles' ground truth. None of this calls into ureq-proto, httparse or
//! url; only plain data is shared.

// ------------------------------------------------------------------------------ token classes

pub fn is_tchar(c: u8) -> bool {
    matches!(c,
        b'!' | b'#' | b'$' | b'%' | b'&' | b'\'' | b'*' | b'+' | b'-' | b'.' | b'^' | b'_' | b'`' | b'|' | b'~'
        | b'0'..=b'9' | b'a'..=b'z' | b'A'..=b'Z')
}

pub fn trim_ows(v: &[u8]) -> &[u8] {
    let mut s = 0;
    let mut e = v.len();
    while s < e && (v[s] == b' ' || v[s] == b'\t') {
        s += 1;
    }
    while e > s && (v[e - 1] == b' ' || v[e - 1] == b'\t') {
        e -= 1;
    }
    &v[s..e]
}

pub fn lower(s: &str) -> String {
    s.to_ascii_lowercase()
}

// ---------------------------------------------------------------------- strict request parser

#[derive(Debug, Clone)]
pub struct ParsedReq {
    pub method: String,
    pub target: String,
    pub version: String,
    /// (lower-cased name, value with OWS stripped)
    pub fields: Vec<(String, Vec<u8>)>,
    pub len: usize,
    /// byte offsets at which a line ends (after its CRLF); the blank line is included in the
    /// last header line's unit
    pub unit_ends: Vec<usize>,
}

pub fn find(hay: &[u8], needle: &[u8]) -> Option<usize> {
    if needle.is_empty() || hay.len() < needle.len() {
        return None;
    }
    (0..=hay.len() - needle.len()).find(|&i| &hay[i..i + needle.len()] == needle)
}

/// Strict RFC 9112 request head parser. `Ok(None)` = no complete head in the input.
pub fn parse_request_head(b: &[u8]) -> Result<Option<ParsedReq>, String> {
    let end = match find(b, b"\r\n\r\n") {
        Some(i) => i + 4,
        None => {
            return Ok(None);
        }
    };
    let head = &b[..end];
    let mut lines: Vec<(usize, usize)> = Vec::new(); // (start, end_excl_crlf)
    let mut p = 0;
    while p < end - 2 {
        let e = match find(&head[p..], b"\r\n") {
            Some(i) => p + i,
            None => return Err("line without CRLF".into()),
        };
        lines.push((p, e));
        p = e + 2;
    }
    if lines.is_empty() {
        return Err("empty head".into());
    }
    for &c in head {
        if c == b'\n' {
            // every LF must be preceded by CR
        }
        if c == 0 {
            return Err("NUL in head".into());
        }
    }
    for i in 0..head.len() {
        if head[i] == b'\n' && (i == 0 || head[i - 1] != b'\r') {
            return Err("bare LF".into());
        }
        if head[i] == b'\r' && (i + 1 >= head.len() || head[i + 1] != b'\n') {
            return Err("bare CR".into());
        }
    }
    let (ls, le) = lines[0];
    let rl = &head[ls..le];
    let parts: Vec<&[u8]> = rl.split(|c| *c == b' ').collect();
    if parts.len() != 3 {
        return Err(format!("request line must have exactly two spaces: {:?}", String::from_utf8_lossy(rl)));
    }
    if parts[0].is_empty() || !parts[0].iter().all(|c| is_tchar(*c)) {
        return Err("bad method token".into());
    }
    if parts[1].is_empty() || !parts[1].iter().all(|c| (0x21..=0x7e).contains(c)) {
        return Err("bad request target".into());
    }
    if parts[2] != b"HTTP/1.0" && parts[2] != b"HTTP/1.1" {
        return Err(format!("bad version {:?}", String::from_utf8_lossy(parts[2])));
    }
    let mut fields = Vec::new();
    let mut unit_ends = vec![le + 2];
    for &(s, e) in &lines[1..] {
        let line = &head[s..e];
        let colon = match line.iter().position(|c| *c == b':') {
            Some(i) => i,
            None => return Err(format!("header line without colon: {:?}", String::from_utf8_lossy(line))),
        };
        let name = &line[..colon];
        if name.is_empty() || !name.iter().all(|c| is_tchar(*c)) {
            return Err(format!("bad header name {:?}", String::from_utf8_lossy(name)));
        }
        let value = trim_ows(&line[colon + 1..]);
        for &c in value {
            if !(c == b'\t' || (0x20..=0x7e).contains(&c) || c >= 0x80) {
                return Err("bad byte in header value".into());
            }
        }
        fields.push((String::from_utf8_lossy(name).to_ascii_lowercase(), value.to_vec()));
        unit_ends.push(e + 2);
    }
    // the blank line belongs to the last unit
    let last = unit_ends.len() - 1;
    unit_ends[last] = end;
    Ok(Some(ParsedReq {
        method: String::from_utf8_lossy(parts[0]).to_string(),
        target: String::from_utf8_lossy(parts[1]).to_string(),
        version: String::from_utf8_lossy(parts[2]).to_string(),
        fields,
        len: end,
        unit_ends,
    }))
}

// ------------------------------------------------------------------- strict chunked decoder

#[derive(Debug, Clone, Default)]
pub struct Dechunked {
    pub data: Vec<u8>,
    pub chunks: usize,
    /// number of complete `0 CRLF CRLF` terminators seen
    pub terminators: usize,
    /// wire offset after the last complete element
    pub complete_upto: usize,
    /// the wire ends exactly on an element boundary
    pub on_boundary: bool,
    /// bytes found after a terminator
    pub after_terminator: usize,
}

/// Strictly decode what the client put on the wire as a chunked request body: 1*HEXDIG CRLF
/// data CRLF, chunk size >= 1, terminated by `0 CRLF CRLF` (the client sends no extensions or
/// trailers). `Err` for anything that is not a prefix of such a coding.
pub fn dechunk_strict(w: &[u8]) -> Result<Dechunked, String> {
    let mut d = Dechunked::default();
    let mut p = 0usize;
    loop {
        d.complete_upto = p;
        if p == w.len() {
            d.on_boundary = true;
            return Ok(d);
        }
        if d.terminators > 0 {
            d.after_terminator = w.len() - p;
            return Err(format!("{} bytes after the terminating chunk", w.len() - p));
        }
        // size line
        let mut q = p;
        let mut size: u64 = 0;
        let mut digits = 0;
        while q < w.len() && (w[q] as char).is_ascii_hexdigit() {
            size = size
                .checked_mul(16)
                .and_then(|s| s.checked_add((w[q] as char).to_digit(16).unwrap() as u64))
                .ok_or("chunk size overflow")?;
            digits += 1;
            q += 1;
        }
        if q == w.len() {
            // incomplete size line
            if digits == 0 && q == p {
                d.on_boundary = true;
            }
            d.on_boundary = false;
            return Ok(d);
        }
        if digits == 0 {
            return Err(format!("expected hex digit at wire offset {}", q));
        }
        if w[q] != b'\r' {
            return Err(format!("expected CR after chunk size at wire offset {}", q));
        }
        if q + 1 >= w.len() {
            d.on_boundary = false;
            return Ok(d);
        }
        if w[q + 1] != b'\n' {
            return Err(format!("expected LF after chunk size at wire offset {}", q + 1));
        }
        q += 2;
        if size == 0 {
            // last-chunk: expect CRLF directly
            if q + 2 > w.len() {
                if w[q..].iter().zip(b"\r\n").all(|(a, b)| a == b) {
                    d.on_boundary = false;
                    return Ok(d);
                }
                return Err("garbage after last-chunk".into());
            }
            if &w[q..q + 2] != b"\r\n" {
                return Err("expected CRLF after last-chunk (no trailers are sent)".into());
            }
            d.terminators += 1;
            p = q + 2;
            continue;
        }
        let size = size as usize;
        if q + size > w.len() {
            d.on_boundary = false;
            // partial data: still record nothing (incomplete chunk)
            return Ok(d);
        }
        let data = &w[q..q + size];
        q += size;
        if q + 2 > w.len() {
            if w[q..].iter().zip(b"\r\n").all(|(a, b)| a == b) {
                d.on_boundary = false;
                return Ok(d);
            }
            return Err("garbage after chunk data".into());
        }
        if &w[q..q + 2] != b"\r\n" {
            return Err(format!("expected CRLF after chunk data at wire offset {}", q));
        }
        d.data.extend_from_slice(data);
        d.chunks += 1;
        p = q + 2;
    }
}

// ------------------------------------------------------------------------- response framing

#[derive(Debug, Clone, Copy, PartialEq, Eq)]
pub enum Framing {
    NoBody,
    Chunked,
    Length(u64),
    Close,
    Error,
    DontCare,
}

#[derive(Debug, Clone, Copy, PartialEq, Eq)]
pub enum ClClass {
    Absent,
    Num(u64),
    /// does not fit u64 / not a number / empty / negative
    Bad,
    /// `+5`: accepted by some integer parsers; the property text does not decide it
    Plus,
}

#[derive(Debug, Clone, Copy, PartialEq, Eq)]
pub enum TeClass {
    Absent,
    /// exactly "chunked" in any case, or a list whose last coding is chunked
    Chunked,
    /// a list that contains chunked but not last ("chunked, gzip")
    ChunkedNotLast,
    /// codings other than chunked
    Other,
}

/// RFC 9112 section 6.3 as stated in C06.
pub fn ref_framing(method: &str, status: u16, resp_http11: bool, cl: ClClass, te: TeClass) -> Framing {
    let chunked_effective = te == TeClass::Chunked && resp_http11;
    if cl == ClClass::Plus || te == TeClass::ChunkedNotLast {
        return Framing::DontCare;
    }
    if cl == ClClass::Bad {
        // "A non-numeric Content-Length is an error" - but when a chunked coding takes
        // precedence the statement does not decide which of the two clauses wins.
        if chunked_effective {
            return Framing::DontCare;
        }
        return Framing::Error;
    }
    let no_body = method == "HEAD"
        || (method == "CONNECT" && (200..300).contains(&status))
        || (100..200).contains(&status)
        || status == 204
        || status == 304;
    if no_body {
        return Framing::NoBody;
    }
    let is_redirect = (300..400).contains(&status) && status != 304;
    if chunked_effective {
        return Framing::Chunked;
    }
    if let ClClass::Num(n) = cl {
        return Framing::Length(n);
    }
    if is_redirect {
        if te == TeClass::Absent {
            return Framing::NoBody;
        }
        // a transfer-encoding header is present but does not delimit: "without any framing
        // header" does not apply literally
        return Framing::DontCare;
    }
    Framing::Close
}

// ----------------------------------------------------------------------------- RFC 3986 §5.2

#[derive(Debug, Clone, PartialEq, Eq)]
pub struct RefUri {
    pub scheme: String,
    pub host: String,
    pub port: Option<u16>,
    pub path: String,
    pub query: Option<String>,
}

impl RefUri {
    pub fn default_port(&self) -> u16 {
        if self.scheme == "https" {
            443
        } else {
            80
        }
    }
    pub fn eff_port(&self) -> u16 {
        self.port.unwrap_or(self.default_port())
    }
    pub fn authority(&self) -> String {
        match self.port {
            Some(p) => format!("{}:{}", self.host, p),
            None => self.host.clone(),
        }
    }
    pub fn render(&self) -> String {
        let mut s = format!("{}://{}{}", self.scheme, self.authority(), self.path);
        if let Some(q) = &self.query {
            s.push('?');
            s.push_str(q);
        }
        s
    }
    pub fn path_and_query(&self) -> String {
        let mut s = if self.path.is_empty() { "/".to_string() } else { self.path.clone() };
        if let Some(q) = &self.query {
            s.push('?');
            s.push_str(q);
        }
        s
    }
}

struct RefParts<'a> {
    scheme: Option<&'a str>,
    authority: Option<&'a str>,
    path: &'a str,
    query: Option<&'a str>,
}

/// RFC 3986 appendix B decomposition (fragment dropped).
fn split_ref(r: &str) -> RefParts<'_> {
    let r = match r.find('#') {
        Some(i) => &r[..i],
        None => r,
    };
    let (r, query) = match r.find('?') {
        Some(i) => (&r[..i], Some(&r[i + 1..])),
        None => (r, None),
    };
    // scheme: ALPHA *( ALPHA / DIGIT / "+" / "-" / "." ) ":"  before any "/"
    let mut scheme = None;
    let mut rest = r;
    if let Some(i) = r.find(':') {
        let cand = &r[..i];
        if !cand.is_empty()
            && cand.as_bytes()[0].is_ascii_alphabetic()
            && cand.bytes().all(|c| c.is_ascii_alphanumeric() || c == b'+' || c == b'-' || c == b'.')
        {
            scheme = Some(cand);
            rest = &r[i + 1..];
        }
    }
    let (authority, path) = if let Some(a) = rest.strip_prefix("//") {
        match a.find('/') {
            Some(i) => (Some(&a[..i]), &a[i..]),
            None => (Some(a), ""),
        }
    } else {
        (None, rest)
    };
    RefParts { scheme, authority, path, query }
}

pub fn remove_dot_segments(path: &str) -> String {
    let mut input = path.to_string();
    let mut out = String::new();
    while !input.is_empty() {
        if input.starts_with("../") {
            input.drain(..3);
        } else if input.starts_with("./") {
            input.drain(..2);
        } else if input.starts_with("/./") {
            input.drain(..2);
        } else if input == "/." {
            input = "/".to_string();
        } else if input.starts_with("/../") {
            input.drain(..3);
            match out.rfind('/') {
                Some(i) => out.truncate(i),
                None => out.clear(),
            }
        } else if input == "/.." {
            input = "/".to_string();
            match out.rfind('/') {
                Some(i) => out.truncate(i),
                None => out.clear(),
            }
        } else if input == "." || input == ".." {
            input.clear();
        } else {
            let start = if input.starts_with('/') { 1 } else { 0 };
            let end = match input[start..].find('/') {
                Some(i) => start + i,
                None => input.len(),
            };
            out.push_str(&input[..end]);
            input.drain(..end);
        }
    }
    out
}

fn parse_authority(a: &str) -> Option<(String, Option<u16>)> {
    // userinfo is not part of the origin
    let a = match a.rfind('@') {
        Some(i) => &a[i + 1..],
        None => a,
    };
    if a.is_empty() {
        return None;
    }
    match a.rfind(':') {
        Some(i) => {
            let p = &a[i + 1..];
            if p.is_empty() {
                Some((a[..i].to_string(), None))
            } else {
                let port = p.parse::<u16>().ok()?;
                Some((a[..i].to_string(), Some(port)))
            }
        }
        None => Some((a.to_string(), None)),
    }
}

/// Resolve reference `r` against `base` (RFC 3986 §5.2.2, strict), fragment dropped.
pub fn resolve(base: &RefUri, r: &str) -> Option<RefUri> {
    let p = split_ref(r);
    let (scheme, host, port, path, query);
    if let Some(s) = p.scheme {
        // scheme and host are case-insensitive (RFC 3986 section 6.2.2.1)
        scheme = s.to_ascii_lowercase();
        let (h, po) = parse_authority(p.authority?)?;
        host = h;
        port = po;
        path = remove_dot_segments(p.path);
        query = p.query.map(|q| q.to_string());
    } else {
        scheme = base.scheme.clone();
        if let Some(a) = p.authority {
            let (h, po) = parse_authority(a)?;
            host = h;
            port = po;
            path = remove_dot_segments(p.path);
            query = p.query.map(|q| q.to_string());
        } else {
            host = base.host.clone();
            port = base.port;
            if p.path.is_empty() {
                path = base.path.clone();
                query = match p.query {
                    Some(q) => Some(q.to_string()),
                    None => base.query.clone(),
                };
            } else {
                if p.path.starts_with('/') {
                    path = remove_dot_segments(p.path);
                } else {
                    // merge
                    let merged = if base.path.is_empty() {
                        format!("/{}", p.path)
                    } else {
                        match base.path.rfind('/') {
                            Some(i) => format!("{}{}", &base.path[..=i], p.path),
                            None => p.path.to_string(),
                        }
                    };
                    path = remove_dot_segments(&merged);
                }
                query = p.query.map(|q| q.to_string());
            }
        }
    }
    let mut u = RefUri { scheme, host: host.to_ascii_lowercase(), port, path, query };
    if u.path.is_empty() {
        u.path = "/".to_string();
    }
    Some(u)
}

/// Equality modulo scheme-based normalisation (default port elided, host case).
pub fn same_uri(a: &RefUri, b: &RefUri) -> bool {
    a.scheme == b.scheme
        && a.host.eq_ignore_ascii_case(&b.host)
        && a.eff_port() == b.eff_port()
        && (if a.path.is_empty() { "/" } else { &a.path }) == (if b.path.is_empty() { "/" } else { &b.path })
        && a.query == b.query
}

// ------------------------------------------------------------------------ redirect tables

/// C15: `None` = the redirect is not followed at all.
pub fn ref_redirect_method(method: &str, status: u16) -> Option<String> {
    if status == 307 || status == 308 {
        if matches!(method, "POST" | "PUT" | "PATCH" | "DELETE") {
            None
        } else {
            Some(method.to_string())
        }
    } else if method == "HEAD" || method == "GET" {
        Some(method.to_string())
    } else {
        Some("GET".to_string())
    }
}

pub fn method_needs_body(m: &str) -> bool {
    matches!(m, "POST" | "PUT" | "PATCH")
}

pub fn method_ok_for_version(m: &str, http11: bool) -> bool {
    matches!(m, "GET" | "HEAD" | "POST") || http11
}

pub const METHODS: [&str; 9] = ["GET", "HEAD", "POST", "PUT", "DELETE", "CONNECT", "OPTIONS", "TRACE", "PATCH"];
