//! Scenario family `head`: C02 (request head well-formed and faithful) and C17 (invalid
//! requests rejected before a byte is emitted).
//!
//! Nondeterminism explored (C02): the sequence of output-buffer sizes the socket's send window
//! imposes while the head is written, including calls after completion and read-only queries.
//! C17 is schedule-free apart from the repeated attempts.

use ureq_proto::client::call::state as cs;
use ureq_proto::client::call::Call;
use ureq_proto::client::flow::state as fs;
use ureq_proto::client::flow::{Await100Result, Flow, SendRequestResult};
use ureq_proto::Error;

use crate::ctx::{lib, set_observed, Ctx, R};
use crate::drive::err_name;
use crate::json::show_bytes;
use crate::refs::{dechunk_strict, method_needs_body, parse_request_head, METHODS};
use crate::reqgen::{classify, compare_head, expected_head, gen_valid_req, insert_at, Framing, ReqCfg, Validity};
use crate::{ensure, fail};

pub enum HeadTx {
    Flow(Flow<(), fs::SendRequest>),
    CallNo(Call<cs::WithoutBody, ()>),
    CallBody(Call<cs::WithBody, ()>),
    Taken,
}

/// Build the head-sending state from a configuration through the real API. No draws.
/// api: 0 = flow, 1 = Call::with_body, 2 = Call::without_body
pub fn make_tx(cfg: &ReqCfg, api: u8) -> Result<HeadTx, Error> {
    let req = cfg.build();
    match api {
        0 => {
            let mut f = lib("Flow::new", || Flow::new(req))?;
            for (n, v) in &cfg.added {
                lib("Flow<Prepare>::header", || f.header(n.as_str(), v.as_slice()))?;
            }
            if cfg.despite {
                lib("Flow<Prepare>::send_body_despite_method", || f.send_body_despite_method());
            }
            Ok(HeadTx::Flow(lib("Flow<Prepare>::proceed", || f.proceed())))
        }
        1 => Ok(HeadTx::CallBody(lib("Call::with_body", || Call::with_body(req))?)),
        _ => Ok(HeadTx::CallNo(lib("Call::without_body", || Call::without_body(req))?)),
    }
}

impl HeadTx {
    pub fn write(&mut self, ctx: &mut Ctx, input: &[u8], out: &mut [u8]) -> Result<(usize, usize), Error> {
        ctx.steps += 1;
        match self {
            HeadTx::Flow(f) => lib("Flow<SendRequest>::write", || f.write(out)).map(|n| (0, n)),
            HeadTx::CallNo(c) => lib("Call<WithoutBody>::write", || c.write(out)).map(|n| (0, n)),
            HeadTx::CallBody(c) => lib("Call<WithBody>::write", || c.write(input, out)),
            HeadTx::Taken => unreachable!(),
        }
    }
    pub fn can_proceed(&self) -> Option<bool> {
        match self {
            HeadTx::Flow(f) => Some(lib("Flow<SendRequest>::can_proceed", || f.can_proceed())),
            HeadTx::CallNo(c) => Some(lib("Call<WithoutBody>::is_finished", || c.is_finished())),
            _ => None,
        }
    }
}

fn api_for(ctx: &mut Ctx, cfg: &ReqCfg) -> u8 {
    if !cfg.added.is_empty() || cfg.despite {
        return 0;
    }
    if ctx.chance(1, 3) {
        if method_needs_body(&cfg.method) {
            1
        } else {
            2
        }
    } else {
        0
    }
}

// ============================================================================================ C02

pub fn c02(ctx: &mut Ctx) -> R {
    set_observed(false);
    let flow_only = ctx.chance(2, 3);
    let cfg = gen_valid_req(ctx, true, flow_only);
    let api = api_for(ctx, &cfg);
    c02_on(ctx, &cfg, api, &[], 0)
}

/// The C02 oracle on a configuration (also used at redirect depth >= 1 by the redirect world).
pub fn c02_on(ctx: &mut Ctx, cfg: &ReqCfg, api: u8, suppressed: &[&str], depth: u32) -> R {
    // ---- canonical twin: one 64 KiB write
    let mut big = vec![0u8; 65_536];
    let mut tx0 = match make_tx(cfg, api) {
        Ok(t) => t,
        Err(e) => fail!("FOREIGN", "", "cannot build the request: {}", e),
    };
    set_observed(true);
    let (_, n0) = match tx0.write(ctx, &[], &mut big) {
        Ok(v) => v,
        Err(e) => fail!("C02.valid_request_refused", "", "a request C17 accepts was refused on the first write: {} [{}]", e, cfg.summary()),
    };
    let w: Vec<u8> = big[..n0].to_vec();
    let parsed = match parse_request_head(&w) {
        Ok(Some(p)) => p,
        Ok(None) => fail!("C02.head_incomplete", "", "a 64 KiB write did not produce a complete head: {:?}", show_bytes(&w)),
        Err(e) => fail!("C02.malformed_head", "", "head on the wire is not a well-formed HTTP/1.x request head: {} [{:?}]", e, show_bytes(&w)),
    };
    ensure!(parsed.len == w.len(), "C02.bytes_after_head", "{} bytes emitted after the blank line", w.len() - parsed.len);
    let exp = expected_head(cfg, suppressed);
    if let Err(e) = compare_head(&parsed, &exp) {
        fail!("C02.unfaithful_head", "", "{} [{}] wire: {:?}", e, cfg.summary(), show_bytes(&w));
    }
    // framing header on the wire vs body due
    let wire_te = parsed.fields.iter().filter(|(n, v)| n == "transfer-encoding" && v.eq_ignore_ascii_case(b"chunked")).count();
    let wire_cl = parsed.fields.iter().filter(|(n, _)| n == "content-length").count();
    if cfg.body_due() {
        ensure!(wire_te + wire_cl == 1, "C02.framing_header_count", "a request body follows but the head has {} transfer-encoding: chunked and {} content-length lines", wire_te, wire_cl);
    }
    if let Some(cp) = tx0.can_proceed() {
        ensure!(cp, "C02.not_ready_after_head", "head completely written but not ready to advance");
    }
    ctx.sample(|| format!("depth {} api={} {} -> head {} bytes, {} lines", depth, api, cfg.summary(), w.len(), parsed.unit_ends.len()));

    // ---- sliced run on a second instance
    let mut tx = match make_tx(cfg, api) {
        Ok(t) => t,
        Err(e) => fail!("FOREIGN", "", "cannot build the request: {}", e),
    };
    let units = &parsed.unit_ends;
    let mut pos = 0usize;
    let mut calls = 0usize;
    let mut overflows = 0usize;
    let mode = ctx.draw(5);
    while pos < w.len() {
        calls += 1;
        if calls > 6 * units.len() + 60 {
            break;
        }
        let ui = units.iter().position(|e| *e > pos).unwrap();
        let next_len = units[ui] - pos;
        // The last header line and the empty line that ends the head may be emitted as one unit
        // (what this crate does) or as two lines: the statement allows both ("only whole lines",
        // "then one empty line"). `next_line` is the shortest thing that can be emitted next.
        let split_pt = w.len() - 2;
        let next_line = if units[ui] == w.len() && pos < split_pt { split_pt - pos } else { next_len };
        let out_len = match mode {
            0 => 65_536,
            1 => (next_len + ctx.range(0, 2)).saturating_sub(1),
            2 => match ctx.draw(5) {
                0 => ctx.range(0, 3),
                1 => next_len,
                2 => next_len.saturating_sub(1),
                3 => units[(ui + 1).min(units.len() - 1)] - pos + ctx.range(0, 2) - 1,
                _ => ctx.range(0, 200),
            },
            3 => ctx.range(next_len.saturating_sub(2), next_len + 40),
            _ => match ctx.draw(3) {
                0 => ctx.range(0, 12),
                1 => ctx.range(0, w.len() + 4),
                _ => next_len,
            },
        };
        let offered: &[u8] = if ctx.flip() { b"BODYBYTES" } else { b"" };
        for b in big[..out_len].iter_mut() {
            *b = 0xEE;
        }
        if ctx.chance(1, 6) {
            // read-only queries anywhere
            if let HeadTx::Flow(f) = &mut tx {
                let m = lib("Flow<SendRequest>::method", || f.method().as_str().to_string());
                ensure!(m == cfg.method, "C02.query_method", "method() = {} != {}", m, cfg.method);
                let _ = lib("Flow<SendRequest>::uri", || f.uri().to_string());
                let _ = lib("Flow<SendRequest>::version", || f.version());
                let _ = lib("Flow<SendRequest>::headers_map", || f.headers_map().map(|m| m.len()));
                ctx.count("f:caller_query_interleaved");
            }
        }
        let r = tx.write(ctx, offered, &mut big[..out_len]);
        ctx.ev(|| format!("write(out={}) at head offset {} (next line {} bytes) -> {:?}", out_len, pos, next_len, r.as_ref().map_err(err_name)));
        ctx.sig3((out_len < next_len) as u64 * 4 + (out_len == next_len) as u64 * 2 + (out_len == next_len + 1) as u64, ui.min(5) as u64, r.is_ok() as u64);
        let ambiguous = out_len >= next_line && out_len < next_len;
        if ambiguous && matches!(r, Err(Error::OutputOverflow)) {
            // the last header line fits, the empty line after it does not: overflow is this
            // crate's answer (one unit), emitting the header line alone would be another
            overflows += 1;
            ctx.count("f:backpressure");
        } else if out_len < next_line {
            overflows += 1;
            ctx.count("f:backpressure");
            match r {
                Err(Error::OutputOverflow) => {
                }
                Err(e) => fail!("C02.wrong_error", "", "buffer of {} bytes cannot hold the next line of {} bytes: expected output overflow, got {}", out_len, next_len, e),
                Ok((c, n)) => fail!("C02.no_overflow", "", "buffer of {} bytes cannot hold the next line of {} bytes but the write returned Ok(consumed {}, produced {})", out_len, next_len, c, n),
            }
        } else {
            let (c, n) = match r {
                Ok(v) => v,
                Err(e) => fail!("C02.spurious_error", "", "buffer of {} bytes holds the next line of {} bytes but the write failed: {}", out_len, next_len, e),
            };
            ensure!(c == 0, "C02.input_consumed_in_head", "body input consumed ({}) while the head was being written", c);
            ensure!(n > 0, "C02.no_progress", "write into {} bytes (next line {} bytes) emitted nothing", out_len, next_len);
            ensure!(pos + n <= w.len(), "C02.too_many_bytes", "more head bytes than the canonical head");
            if big[..n] != w[pos..pos + n] {
                fail!("C02.schedule_dependent_bytes", "", "sliced head differs from the one-shot head at offset {}: {:?} vs {:?}", pos, show_bytes(&big[..n]), show_bytes(&w[pos..pos + n]));
            }
            pos += n;
            if !units.contains(&pos) && pos != split_pt {
                fail!("C02.partial_line", "", "a write ended inside a line (head offset {} is not a line end)", pos);
            }
        }
        if let Some(cp) = tx.can_proceed() {
            if cp != (pos == w.len()) {
                fail!("C02.readiness", if cp { "early" } else { "late" }, "can_proceed() = {} with {} of {} head bytes emitted", cp, pos, w.len());
            }
        }
    }
    ensure!(pos == w.len(), "C02.no_progress", "head not completed after {} calls", calls);

    // ---- calls after completion emit nothing and have no effect
    let after = ctx.range(0, 3);
    if !matches!(tx, HeadTx::CallBody(_)) {
        for _ in 0..after {
            let out_len = *ctx.pick(&[0usize, 5, 64, 4096]);
            for b in big[..out_len].iter_mut() {
                *b = 0xEE;
            }
            let r = tx.write(ctx, &[], &mut big[..out_len]);
            ctx.ev(|| format!("write(out={}) after completion -> {:?}", out_len, r.as_ref().map_err(err_name)));
            ctx.count("f:caller_write_after_head_complete");
            if let Ok((_, n)) = r {
                if n != 0 {
                    fail!("C02.emitted_after_completion", "", "a write after the head was complete emitted {} bytes: {:?}", n, show_bytes(&big[..n.min(40)]));
                }
            }
            ensure!(tx.can_proceed() == Some(true), "C02.readiness", "no longer ready after a further write");
        }
    }
    // ---- the flow must still be usable: send the body the head announced
    if let HeadTx::Flow(f) = std::mem::replace(&mut tx, HeadTx::Taken) {
        let next = lib("Flow<SendRequest>::proceed", || f.proceed());
        let sb = match next {
            Ok(Some(SendRequestResult::SendBody(b))) => {
                ensure!(cfg.body_due() && !cfg.expect, "C02.wrong_successor", "SendBody after the head of [{}]", cfg.summary());
                Some(b)
            }
            Ok(Some(SendRequestResult::Await100(a))) => {
                ensure!(cfg.body_due() && cfg.expect, "C02.wrong_successor", "Await100 after the head of [{}]", cfg.summary());
                match lib("Flow<Await100>::proceed", || a.proceed()) {
                    Ok(Await100Result::SendBody(b)) => Some(b),
                    Ok(Await100Result::RecvResponse(_)) => fail!("C02.wrong_successor", "await", "giving up waiting for 100 did not lead to SendBody"),
                    Err(e) => fail!("C02.wrong_successor", "await-err", "Await100::proceed failed: {}", e),
                }
            }
            Ok(Some(SendRequestResult::RecvResponse(_))) => {
                ensure!(!cfg.body_due(), "C02.wrong_successor", "RecvResponse although a body is due [{}]", cfg.summary());
                None
            }
            Ok(None) => fail!("C02.readiness", "proceed-none", "proceed() returned None after the complete head"),
            Err(e) => fail!("C02.wrong_successor", "err", "proceed() failed after the complete head: {}", e),
        };
        if let Some(mut b) = sb {
            let chunked = lib("Flow<SendBody>::is_chunked", || b.is_chunked());
            if chunked != (wire_te == 1) {
                fail!("C02.framing_header_mismatch", "", "head announces {} but the body writer is {}", if wire_te == 1 { "transfer-encoding: chunked" } else { "content-length" }, if chunked { "chunked" } else { "length-delimited" });
            }
            let mut out = vec![0u8; 256];
            if chunked {
                let r1 = lib("Flow<SendBody>::write", || b.write(b"hello", &mut out));
                let (c, n1) = match r1 {
                    Ok(v) => v,
                    Err(e) => fail!("C02.body_unusable_after_head", if after > 0 { "after-extra-write" } else { "" }, "first body write after the head failed: {} ({} extra head writes were made after completion)", e, after),
                };
                let r2 = lib("Flow<SendBody>::write", || b.write(&[], &mut out[n1..]));
                let n2 = match r2 {
                    Ok(v) => v.1,
                    Err(e) => fail!("C02.body_unusable_after_head", "finish", "finishing write failed: {}", e),
                };
                let d = dechunk_strict(&out[..n1 + n2]);
                let ok = matches!(&d, Ok(d) if c == 5 && d.data == b"hello" && d.terminators == 1);
                if !ok {
                    fail!("C02.body_unusable_after_head", "encoding", "body after the head is not 'hello' chunked once: {:?} ({} extra head writes after completion)", show_bytes(&out[..n1 + n2]), after);
                }
                ensure!(lib("Flow<SendBody>::can_proceed", || b.can_proceed()), "C02.body_unusable_after_head", "body not finished after the terminator");
            } else {
                let n = cfg.sized().unwrap_or(0).min(200) as usize;
                let body = vec![b'x'; n];
                let r1 = lib("Flow<SendBody>::write", || b.write(&body, &mut out));
                match r1 {
                    Ok((c, p)) => ensure!(c == n && p == n, "C02.body_unusable_after_head", "sized body write moved {}/{} of {}", c, p, n),
                    Err(e) => fail!("C02.body_unusable_after_head", "sized", "sized body write failed: {}", e),
                }
                if cfg.sized().unwrap_or(0) as usize == n {
                    ensure!(lib("Flow<SendBody>::can_proceed", || b.can_proceed()), "C02.body_unusable_after_head", "sized body not finished after N bytes");
                }
            }
        }
    }
    if overflows > 0 {
        ctx.count("p:output_overflow_seen");
    }
    if depth > 0 {
        ctx.count("p:head_at_redirect_depth");
    }
    ctx.nontrivial = calls >= 2;
    Ok(())
}

// ============================================================================================ C17

pub fn gen_maybe_invalid(ctx: &mut Ctx) -> (ReqCfg, u8) {
    let flow_only = ctx.chance(1, 2);
    let mut cfg = gen_valid_req(ctx, true, flow_only);
    let mut api = if !cfg.added.is_empty() || cfg.despite { 0 } else { ctx.draw(3) as u8 };
    let nm = match ctx.draw(6) {
        0 => 0,
        1 | 2 | 3 => 1,
        _ => 2,
    };
    for _ in 0..nm {
        match ctx.draw(12) {
            0 => cfg.version = *ctx.pick(&[9u8, 20, 30]),
            1 => {
                cfg.version = 10;
                cfg.method = ctx.pick(&["PUT", "DELETE", "CONNECT", "OPTIONS", "TRACE", "PATCH"]).to_string();
            }
            2 => {
                // a second Host
                let h = ("host".to_string(), b"other.test".to_vec());
                if api == 0 && ctx.flip() {
                    insert_at(ctx, &mut cfg.added, h);
                } else {
                    insert_at(ctx, &mut cfg.orig, h);
                }
                if !cfg.orig.iter().chain(cfg.added.iter()).any(|(n, v)| n == "host" && v != b"other.test") {
                    let h2 = ("Host".to_string(), b"a.test".to_vec());
                    insert_at(ctx, &mut cfg.orig, h2);
                }
            }
            3 => {
                // content-length variants
                let v: &[u8] = *ctx.pick(&[&b"5"[..], b"0", b"-1", b"abc", b"", b"5x", b"1.0", b"\xff\xfe", b"+5", b"99999999999999999999999", b"007", b"4294967296", b"18446744073709551615", b"65536"]);
                let h = ("content-length".to_string(), v.to_vec());
                if api == 0 && ctx.flip() {
                    insert_at(ctx, &mut cfg.added, h);
                } else {
                    insert_at(ctx, &mut cfg.orig, h);
                }
            }
            4 => {
                let v: &[u8] = *ctx.pick(&[&b"chunked"[..], b"CHUNKED", b"gzip", b"gzip, chunked"]);
                let h = ("transfer-encoding".to_string(), v.to_vec());
                insert_at(ctx, &mut cfg.orig, h);
            }
            5 => {
                cfg.method = ctx.pick(&METHODS).to_string();
            }
            6 => {
                let h = ("host".to_string(), vec![b'a', 0xe9, b'.', b't']);
                insert_at(ctx, &mut cfg.orig, h);
            }
            7 => {
                if api == 0 {
                    cfg.despite = !cfg.despite;
                }
            }
            8 => {
                if cfg.added.is_empty() && !cfg.despite {
                    api = ctx.draw(3) as u8;
                }
            }
            9 => cfg.version = *ctx.pick(&[10u8, 11]),
            _ => {
                // drop framing headers
                cfg.orig.retain(|(n, _)| n != "content-length" && n != "transfer-encoding");
                cfg.added.retain(|(n, _)| n != "content-length" && n != "transfer-encoding");
                cfg.framing = Framing::None;
            }
        }
    }
    if api != 0 {
        cfg.despite = false;
        if !cfg.added.is_empty() {
            api = 0;
        }
    }
    (cfg, api)
}

pub fn c17(ctx: &mut Ctx) -> R {
    let (cfg, api) = gen_maybe_invalid(ctx);
    let (class, why) = classify(&cfg, api);
    ctx.sample(|| format!("api={} class={:?}/{} {} orig={:?}", api, class, why, cfg.summary(), cfg.orig.iter().map(|(n, v)| format!("{}: {}", n, show_bytes(v))).take(8).collect::<Vec<_>>()));
    let mut tx = match make_tx(&cfg, api) {
        Ok(t) => t,
        Err(e) => {
            // refusing at construction is also "before a single byte"
            if class == Validity::Valid {
                fail!("C17.valid_refused", why, "a valid request was refused at construction: {} [{}]", e, cfg.summary());
            }
            ctx.nontrivial = true;
            ctx.sig3(api as u64, class as u64, 99);
            return Ok(());
        }
    };
    let cell = (api as u32) * 64 + why_cell(why);
    ctx.cell(cell);
    let mut big = vec![0u8; 65_536];
    let sizes: [usize; 4] = match ctx.draw(4) {
        0 => [0, 7, 65_536, 65_536],
        1 => [65_536, 0, 30, 65_536],
        2 => [16, 65_536, 65_536, 0],
        _ => [65_536, 65_536, 1, 65_536],
    };
    let mut emitted = 0usize;
    let mut first_err: Option<String> = None;
    for (k, &out_len) in sizes.iter().enumerate() {
        for b in big[..out_len].iter_mut() {
            *b = 0xEE;
        }
        let r = tx.write(ctx, &[], &mut big[..out_len]);
        ctx.ev(|| format!("attempt {} write(out={}) -> {:?}", k, out_len, r.as_ref().map_err(err_name)));
        ctx.sig3(cell as u64, k as u64 * 4 + (out_len > 100) as u64, r.is_ok() as u64);
        match class {
            Validity::Invalid => match r {
                Ok((_, n)) => {
                    fail!("C17.invalid_accepted", why, "attempt {} to write an invalid request ({}) succeeded and emitted {} bytes: {:?} [{}]", k, why, n, show_bytes(&big[..n.min(60)]), cfg.summary());
                }
                Err(e) => {
                    if let Error::OutputOverflow = e {
                        fail!("C17.invalid_accepted", "overflow", "invalid request ({}) got as far as output-overflow instead of being refused [{}]", why, cfg.summary());
                    }
                    if first_err.is_none() {
                        first_err = Some(err_name(&e).to_string());
                    }
                    if let Some(cp) = tx.can_proceed() {
                        ensure!(!cp, "C17.ready_after_refusal", "flow ready to advance after refusing an invalid request ({})", why);
                    }
                }
            },
            Validity::Valid => match r {
                Ok((_, n)) => {
                    emitted += n;
                }
                Err(Error::OutputOverflow) if out_len < 4096 && emitted == 0 => {}
                Err(Error::OutputOverflow) if out_len < 4096 => {}
                Err(e) => fail!("C17.valid_refused", why, "a request outside the invalid classes was refused: {} [{}] orig={:?} added={:?}", e, cfg.summary(), cfg.orig.iter().map(|(n, v)| format!("{}: {}", n, show_bytes(v))).collect::<Vec<_>>(), cfg.added.iter().map(|(n, v)| format!("{}: {}", n, show_bytes(v))).collect::<Vec<_>>()),
            },
            Validity::DontCare => {}
        }
    }
    match class {
        Validity::Invalid => {
            ctx.count("p:invalid_refused");
            if let HeadTx::Flow(f) = std::mem::replace(&mut tx, HeadTx::Taken) {
                match lib("Flow<SendRequest>::proceed", || f.proceed()) {
                    Ok(None) | Err(_) => {}
                    Ok(Some(_)) => fail!("C17.advanced_after_refusal", why, "proceed() advanced a flow whose request is invalid ({})", why),
                }
            }
        }
        Validity::Valid => {
            ensure!(emitted > 0, "C17.valid_refused", "valid request emitted nothing in four attempts");
            ctx.count("p:valid_accepted");
        }
        Validity::DontCare => ctx.count("p:dont_care"),
    }
    ctx.nontrivial = true;
    Ok(())
}

const WHYS: [&str; 16] = [
    "valid",
    "version",
    "method-version",
    "multi-host",
    "multi-content-length",
    "non-textual-host",
    "content-length-overflow",
    "content-length-plus",
    "bad-content-length",
    "other-transfer-encoding",
    "body-on-bodyless-method",
    "with-body-on-bodyless-method",
    "body-method-without-body",
    "without-body-but-framing-header",
    "",
    "",
];

fn why_cell(w: &str) -> u32 {
    WHYS.iter().position(|x| *x == w).unwrap_or(15) as u32
}

pub const C17_CELLS: u32 = 35;
