//! hootsim - deterministic simulation with fault injection for ureq-proto (algesten/hoot).
//!
//! usage: hootsim <ID> quick|thorough        run a check, write /verif/evidence/<ID>.json
//!        hootsim --replay <file>            re-execute a replay file
//!        hootsim --list
//! env:   VERIF_SEED (default 20260926), VERIF_JOBS (default 16), VERIF_DIR (default /verif),
//!        VERIF_SCALE (multiplies the run count; default 1)

mod ctx;
mod drive;
mod json;
mod refs;
mod rng;
mod runner;
mod gen;
mod scen_body;
mod scen_head;
mod scen_hostile;
mod scen_redirect;
mod scen_graph;
mod scen_exchange;
mod world;
mod reqgen;
mod scen_req;
mod scen_send;

use runner::Prop;

const A_COMMON: &str = "the simulated peer, transport, clock and caller loop are reference stubs written for this harness; http, httparse and url are exercised only as far as generated inputs reach";

fn c02_all(ctx: &mut ctx::Ctx) -> ctx::R {
    if ctx.sub == 2 {
        scen_redirect::c02_depth(ctx)
    } else {
        scen_req::c02(ctx)
    }
}

fn c17_all(ctx: &mut ctx::Ctx) -> ctx::R {
    if ctx.sub == 2 {
        scen_redirect::c17_depth(ctx)
    } else {
        scen_req::c17(ctx)
    }
}

fn props() -> Vec<Prop> {
    vec![
        Prop {
            id: "C03",
            scenario: "sendbody-chunked",
            run: scen_send::c03,
            quick: 300_000,
            thorough: 12_000_000,
            subs: &["ops"],
            level: "exploration",
            rule: "seeded random operation sequences (data write / finishing write / empty write after end / non-empty write after end, up to 40 ops) with (input length, output length) drawn from tight, exact-fit, fit+-k, around-10KiB and large classes, on Flow<SendBody> and Call<WithBody>; a run is non-trivial if it has >=2 ops and moved data, met a tight buffer or finished; distinct = distinct hash of the abstract trace (op kind, size buckets, result kind)",
            assumptions: &[A_COMMON, "every op's output is decoded on its own by a strict chunk decoder (sizes in hex, no extensions, no trailers)"],
            cells_total: 0,
            cells_what: "",
            exhaustive_note: "",
        },
        Prop {
            id: "C04",
            scenario: "sendbody-sized",
            run: scen_send::c04,
            quick: 300_000,
            thorough: 10_000_000,
            subs: &["ops"],
            level: "exploration",
            rule: "seeded random operation sequences (write / direct-write report / queries, up to 40 ops) against a countdown model for N in {0,1,2,3,<=300,10239..10249,<=70000,2^32+5,u64::MAX}; non-trivial = moved bytes in >=1 op with >=2 ops, or a refusal was exercised; distinct = abstract trace hash",
            assumptions: &[A_COMMON, "for N beyond memory only the reachable prefix and the refusal rules are checked"],
            cells_total: 0,
            cells_what: "",
            exhaustive_note: "",
        },
        Prop {
            id: "C18",
            scenario: "sendbody-sweep",
            run: scen_send::c18,
            quick: 2 * scen_send::C18_BLOCKS + 3000,
            thorough: 2 * scen_send::C18_BLOCKS + 400_000,
            subs: &["chunked", "sized"],
            level: "exploration",
            rule: "schedule-free sweep: run k covers buffer sizes n in [64k, 64k+63] for k < 483 (n = 0..=30911, every value, chunked and length-delimited), later runs draw blocks of 4 n up to 2^21 by seed; each n: advertised max <= n, == n for sized, monotone, and a single real write of that many bytes is consumed whole; every run is non-trivial; distinct = (framing, block)",
            assumptions: &[A_COMMON, "the outcome depends on n alone; the simulator contributes the real write path, not schedules"],
            cells_total: 2 * 30_912,
            cells_what: "(n, framing) for n in 0..=30911 (swept completely on every run)",
            exhaustive_note: "n = 0..=30911 x {chunked, length-delimited} is enumerated completely in every quick and thorough run; larger n are sampled",
        },
        Prop {
            id: "C19",
            scenario: "sendbody-progress",
            run: scen_send::c19,
            quick: 400_000,
            thorough: 15_000_000,
            subs: &["chunked-pairs", "chunked-loops", "sized-pairs", "chunked-pairs-enumerated"],
            level: "exploration",
            rule: "seeded (input length, output length) pairs with output 6..=11000 and around multiples of 10248, and whole-body loops through one fixed buffer; non-trivial = every pair, every loop with >=2 calls; distinct = (size buckets, full-consumption / call count)",
            assumptions: &[A_COMMON],
            cells_total: 0,
            cells_what: "",
            exhaustive_note: "sub-batch chunked-pairs-enumerated: the run index enumerates every output size 6..=11000 x 8 input classes {1, advertised max, max+1, max-1, out, out+1, out-5, two chunks + 17}: 87960 pairs, all of them in every quick run (100000 runs of that sub-batch) and every thorough run",
        },
        Prop {
            id: "C05",
            scenario: "recvhead",
            run: scen_head::c05,
            quick: 150_000,
            thorough: 6_000_000,
            subs: &["heads"],
            level: "exploration",
            rule: "generated well-formed response heads (1.0/1.1, 101..999, empty/long/obs-text reason, 0..128 fields and a 129..140 class, OWS variants, empty values, repeated names, 3xx with Location at drawn positions) followed by arbitrary bytes, offered to Flow<RecvResponse>, Call<RecvResponse> and parser::try_parse_response on a drawn increasing sequence of arrival prefixes (one-shot, trickle, random, structural cuts around line ends and the Location line, every prefix for short heads) with re-polls; non-trivial = >=2 polls; distinct = abstract trace (cut position class relative to line ends, status class, result kind)",
            assumptions: &[A_COMMON, "status 100 is excluded (owned by C11); heads carry only valid framing fields"],
            cells_total: 0,
            cells_what: "",
            exhaustive_note: "",
        },
        Prop {
            id: "C20",
            scenario: "taps",
            run: scen_head::c20,
            quick: 150_000,
            thorough: 6_000_000,
            subs: &["response", "request"],
            level: "exploration",
            rule: "generated request and response heads with 0..N+2 fields for limits N in {0,1,4,128}, followed by arbitrary bytes, offered to try_parse_response::<N>, try_parse_partial_response::<N>, try_parse_request::<N> on every prefix (heads <= 300 bytes) or on drawn structural prefixes; non-trivial = >=2 prefixes; distinct = abstract trace (limit, over/within, completeness, result kind)",
            assumptions: &[A_COMMON, "prefixes of a head that exceeds the limit may answer incomplete or too-many-headers (the statement decides only the complete head)"],
            cells_total: 0,
            cells_what: "",
            exhaustive_note: "",
        },
        Prop {
            id: "C07",
            scenario: "recvbody-chunked",
            run: scen_body::c07,
            quick: 300_000,
            thorough: 20_000_000,
            subs: &["complete", "truncated-by-peer-close", "complete", "small-scope-enumerated"],
            level: "exploration",
            rule: "generated valid chunked codings (3 of 4 in the small scope: <=3 chunks of sizes 1..3 and 15/16/255/256/4095/4096; else up to 12 chunks / 12000 bytes; upper/lower hex, leading zeros, extensions, 0..2 trailers, payload with CR/LF/0/;) reached through a real head and always followed by a next message, delivered under drawn arrival cut sets (one-shot, trickle, random, structural at every grammar-class change +-2) into drawn output sizes (0..4, 1, random, large, mixed) with boundary stopping on/off/toggled and re-polls; a sub-batch truncates the coding (peer close); BWS before chunk extensions; in 1 of 10 random runs an interim 1xx head is delivered first and polled past; non-trivial = >=2 reads; distinct = abstract trace (grammar class at window end, output class, stop, progress kind)",
            assumptions: &[A_COMMON, "chunk size line (digits + extension) <= 20 bytes: the decoder's sanity limit is treated as a resource limit", "trailer lines contain no bare CR"],
            cells_total: 13 * 8,
            cells_what: "(grammar class of the last visible coding byte: size digit, ext, size CR, size LF, data, data CR, data LF, last-chunk size, trailer, trailer CR, trailer LF, final CR, final LF) x (output space 0 / 1 / 2..4 / larger) x (boundary stop on/off)",
            exhaustive_note: "sub-batch small-scope-enumerated: the run index enumerates (coding of <=3 chunks with sizes 1..3, extension yes/no, 0..2 trailers, leading zeros yes/no: 480 codings) x (one-shot / every single cut position / byte-by-byte / every pair of cut positions) x (output size 0,1,2,3,4,large) x (boundary stop on/off); the quick tier covers every (coding, single cut) pair, the thorough tier (5e6 runs of this sub-batch) covers the whole single-cut product and the pair-of-cuts product for output/stop combinations in run-index order; larger cut sets and the hex-boundary sizes are sampled",
        },
        Prop {
            id: "C08",
            scenario: "recvbody-plain",
            run: scen_body::c08,
            quick: 200_000,
            thorough: 12_000_000,
            subs: &["content-length", "close-delimited"],
            level: "exploration",
            rule: "Content-Length N in {1..3, <=300, 10239..10249, <=70000, 2^32+5, u64::MAX} and close-delimited bodies of 0..70000 bytes reached through a real head, next-message bytes behind the body, drawn arrival schedules and output sizes incl. 0, early peer close in 1 of 8 sized runs; each read is compared with min(window, out, remaining); in 1 of 10 runs an interim 1xx head is delivered first and polled past; non-trivial = >=2 reads; distinct = abstract trace",
            assumptions: &[A_COMMON, "N = 0 never enters the body state (C06 decides that)"],
            cells_total: 0,
            cells_what: "",
            exhaustive_note: "",
        },
        Prop {
            id: "C02",
            scenario: "head",
            run: c02_all,
            quick: 200_000,
            thorough: 12_000_000,
            subs: &["heads", "heads", "redirect-depth"],
            level: "exploration",
            rule: "generated absolute-URI requests C17 accepts (9 methods, 1.0/1.1, 0..12 original and 0..6 caller-added headers with repeated names and obs-text values, explicit or derived Host, CL / chunked / defaulted framing in original or added headers, despite-method, Expect) on Flow and both Call constructors; the one-shot head is strictly parsed and compared with the reference head, then a second instance is written under a drawn sequence of output sizes biased to len(next line)+{-1,0,+1}, with queries and extra writes after completion, and the flow is continued into the body state and a body is sent; non-trivial = >=2 write calls; distinct = abstract trace (fit class per call, line index, result)",
            assumptions: &[A_COMMON, "caller-added headers <= 60 (documented capacity 64 incl. two synthesised)", "a synthesised Host may carry host or host:port; the position of synthesised lines is not constrained"],
            cells_total: 0,
            cells_what: "",
            exhaustive_note: "",
        },
        Prop {
            id: "C17",
            scenario: "head-validity",
            run: c17_all,
            quick: 150_000,
            thorough: 20_000_000,
            subs: &["classes", "classes", "redirected"],
            level: "exploration",
            rule: "schedule-free: validity-biased generator (a valid request plus 0..2 mutations: version 0.9/2/3, 1.1-only method on 1.0, second Host, Content-Length variants incl. negative / non-numeric / non-UTF-8 / duplicate, Transfer-Encoding variants, despite-method, API constructor) classified by an independent reference; 4 write attempts with different buffers each; a third sub-batch plays redirect chains and lets the caller amend the redirected (body-less) request with duplicate / non-numeric / negative Content-Length, a Content-Length or Transfer-Encoding: chunked on the body-less method, or two Host headers: four write attempts must each be refused; every run is non-trivial; distinct = (api, class, attempt results)",
            assumptions: &[A_COMMON, "DontCare (not decided by the statement): non-textual Host, Transfer-Encoding other than chunked, Content-Length '+5' or beyond u64, without-body constructor with a framing header on a body method"],
            cells_total: scen_req::C17_CELLS,
            cells_what: "(api: flow / with_body / without_body) x (validity class reached)",
            exhaustive_note: "",
        },
        Prop {
            id: "C01",
            scenario: "exchange",
            run: scen_exchange::c01,
            quick: 200_000,
            thorough: 8_000_000,
            subs: &["exchanges", "exchanges", "exchanges", "peer-closes-mid-message"],
            level: "exploration",
            rule: "1..3 back-to-back exchanges on one fixed server byte stream (request: 9 methods, 1.0/1.1, CL/chunked/defaulted/no body, Expect with the await policy fixed per configuration; response: any status 101..999, CL/chunked/close-delimited/no body, 0..40 fields, optional interim 100) run in a discrete-event world under drawn arrival schedules (one-shot, trickle, random, structural), drawn output/piece/read buffer policies (large, 0..12, random, mixed), client think times, segment latencies, spurious re-polls, read-only queries and boundary-stop toggles; compared with reference models, with the canonical-schedule twin of the real code, and continued on the same stream when the verdict allows reuse; a sub-batch cuts the stream inside the response (peer close); non-trivial = >=8 library calls; distinct = abstract trace (state path, call count, overflow retries)",
            assumptions: &[A_COMMON, "no arrival cut between the end of a 3xx head's Location line and the end of that head (owned by C05)", "with Expect the await-100 policy (wait for a decision / give up at once) is part of the configuration; the timer race itself is C11's"],
            cells_total: 0,
            cells_what: "",
            exhaustive_note: "",
        },
        Prop {
            id: "C06",
            scenario: "exchange-framing",
            run: scen_exchange::c06,
            quick: 4 * scen_exchange::C06_CELLS as u64,
            thorough: 4000 * scen_exchange::C06_CELLS as u64,
            subs: &["cells"],
            level: "exploration",
            rule: "schedule-free: the run index enumerates the 4860 coarse cells method(9) x status class(9) x response version(2) x Content-Length class(6) x Transfer-Encoding class(5) round-robin, the seed picks the exact status and values; the real exchange is driven one-shot in 3 of 4 runs and sliced in the rest; compared with an independent RFC 9112 6.3 reference (error / successor state / body_mode / delivered bytes / exact consumption) on Flow and, sampled, on Call::into_body; every run is non-trivial; distinct = (cell, path length, terminal); history: in 1 of 6 runs an interim 1xx head precedes the final head and an interim-aware caller polls past it (framing = that of the final head)",
            assumptions: &[A_COMMON, "DontCare cells: 3xx != 304 without Content-Length but with a Transfer-Encoding that does not delimit; 'chunked, gzip'; Content-Length '+5'; chunked together with a non-numeric Content-Length", "status 100 is excluded (C11)", "single Content-Length / Transfer-Encoding field"],
            cells_total: scen_exchange::C06_CELLS,
            cells_what: "method x status class {1xx,200,204,2xx,3xx!=304,304,4xx,5xx,6xx-9xx} x version x CL {absent,0,n,u64::MAX,>u64::MAX,non-numeric} x TE {absent,chunked,mixed case,list ending in chunked,other}",
            exhaustive_note: "every coarse cell is visited four times per quick run (round-robin), the values inside a cell are sampled",
        },
        Prop {
            id: "C10",
            scenario: "exchange-verdict",
            run: scen_exchange::c10,
            quick: 200_000,
            thorough: 15_000_000,
            subs: &["verdicts", "verdicts", "verdicts", "lost-boundaries"],
            level: "exploration",
            rule: "exchanges over request version x original Connection header (close / keep-alive / both / absent) x method x Expect handshake outcome (produced by the simulated timer racing drawn arrival latencies: continued, refused, timed out, late 100) x response version x status (3xx with and without body: Redirect and Cleanup exits) x framing x response Connection values; an all-five-conditions cell is forced in 1 of 12 runs; verdict compared with the set of true close conditions, reason mapped by keyword, and a reusable connection is really reused for a next exchange; distinct = (condition mask, path length, exit state); histories: an interim 1xx head polled past; in 1 of 3 Redirect endings the redirect is followed and the verdict of that second exchange is judged against the request head it really sent",
            assumptions: &[A_COMMON, "Connection values exactly 'close' / 'keep-alive' on the original request and the response", "unknown reason wording is counted as unverifiable, not alarmed"],
            cells_total: 48,
            cells_what: "(subset of the 5 close conditions that holds) x (Redirect / Cleanup exit); the 16 cells 'close-delimited body and Redirect exit' cannot occur (a redirect without framing header has no body)",
            exhaustive_note: "",
        },
        Prop {
            id: "C11",
            scenario: "exchange-expect100",
            run: scen_exchange::c11,
            quick: 200_000,
            thorough: 8_000_000,
            subs: &["race"],
            level: "exploration",
            rule: "Expect requests (1.0/1.1, CL/chunked) against a reactive simulated peer (100 after the head with drawn think time, refusal with any status with/without fields, or silence) while the client's await-100 timer (0 .. 60 s simulated) races the peer's think time and per-segment latencies; the first head is cut structurally around the status-line end; every try_read_100 is judged against the ground-truth head by zone, the edge out of Await100 against the decision, and the run continues to Cleanup/Redirect with the delivered response, body and consumption checked; distinct = abstract trace (zone, kind, result per look); a silent peer may send one late 100, two, or a 103 and a late 100 after the request arrived (exactly one 100 is skipped, the rest is handed out in order)",
            assumptions: &[A_COMMON, "a bare 100 only (100 with fields is outside the statement)", "no second interim 100"],
            cells_total: 0,
            cells_what: "",
            exhaustive_note: "",
        },
        Prop {
            id: "C09",
            scenario: "graph",
            run: scen_graph::c09,
            quick: 300_000,
            thorough: 30_000_000,
            subs: &["walks"],
            level: "exploration",
            rule: "random walks (up to 90 calls) over all public methods of the current flow state - accessors, header(), send_body_despite_method(), I/O with drawn slices, readiness query, advance (also premature: terminal probe), calls repeated after they have decided (try_read_100, try_response, as_new_flow, finishing writes) - interleaved with the arrival of a scripted server stream (interim 100 / refusal / final with every framing, redirects with/without Location, 304, 1xx) for generated valid request configurations; the flow produced by as_new_flow is walked through Prepare and SendRequest; oracle: no panic, readiness query iff the model says complete, proceed() yields a state iff ready, successor = documented graph on ground truth; non-trivial = reached Cleanup, a terminal probe, or >=4 calls; distinct = abstract trace (state, choice per step)",
            assumptions: &[A_COMMON, "permitted = callable on the typestate the driver holds, <= 60 added headers", "after a repeated decisive call only 'no panic' and 'counts bounded' are demanded; the successor oracle uses the first decision", "a look at further server bytes after a consumed 100 makes the Await100 successor undecided"],
            cells_total: 77,
            cells_what: "(state x call kind) pairs (64) + graph edges taken (13)",
            exhaustive_note: "",
        },
        Prop {
            id: "C13",
            scenario: "redirect-world",
            run: scen_redirect::c13,
            quick: 150_000,
            thorough: 10_000_000,
            subs: &["chains"],
            level: "exploration",
            rule: "redirect chains of 1..4 hops in a world of origins {a,b,c}.test x {http,https} x ports; the original request carries unique Authorization / Cookie / Content-Length secrets; every hop is a real exchange (one-shot in 3 of 4 runs, sliced otherwise) whose head is read at the receiving origin by the strict reference parser; Locations drawn from absolute (both schemes, ports), scheme-relative, path-absolute and relative forms so that chains leave and return, downgrade and upgrade; both policies; all methods; statuses 300..399; the same clauses are checked on Flow<SendRequest>::headers_map() of every redirected request; non-trivial = at least one followed hop; distinct = abstract trace (depth, status, Location form, host/scheme change)",
            assumptions: &[A_COMMON, "only-if direction as stated: presence of Authorization is not demanded", "Locations inside the RFC 3986 / WHATWG common grammar; the original URI has no dot segments"],
            cells_total: 0,
            cells_what: "",
            exhaustive_note: "",
        },
        Prop {
            id: "C14",
            scenario: "redirect-world",
            run: scen_redirect::c14,
            quick: 150_000,
            thorough: 10_000_000,
            subs: &["chains"],
            level: "exploration",
            rule: "as C13 with the rich Location grammar (absolute with/without ports, scheme-relative, path-absolute, path-relative with ./ and ../, dot-only, query-only, empty, authority-only, fragments, several Location fields) plus a must-error class (missing, non-UTF-8, unterminated IPv6 literal, port > 65535, non-numeric port) and a garbage class; histories: an interim 1xx head with a Location of its own before the 3xx (polled past), one more try_response poll with an empty window after the head was delivered, as_new_flow asked again after 'not followed'; oracle: Flow<Prepare>::uri() after as_new_flow = RFC 3986 5.2 resolution of the last Location against the current hop's URI (independent resolver), request line and derived Host at the receiving origin, chains of up to 4 hops; distinct = abstract trace",
            assumptions: &[A_COMMON, "lower-case hosts, path/query characters from [a-z0-9._~-], no empty path segments; comparison modulo default ports and host case", "Host clause only when the Host header was derived"],
            cells_total: 0,
            cells_what: "",
            exhaustive_note: "",
        },
        Prop {
            id: "C15",
            scenario: "redirect-world",
            run: scen_redirect::c15,
            quick: 4 * scen_redirect::C15_CELLS as u64,
            thorough: 5000 * scen_redirect::C15_CELLS as u64,
            subs: &["cells"],
            level: "exploration",
            rule: "schedule-free: the run index enumerates all 3600 cells method(9) x status(300..399) x policy(2) x response body(2) for the first hop; a second hop continues with a drawn status so that hop k's method feeds hop k+1; 1 in 40 hops answers a non-3xx status; histories: interim 1xx head before the 3xx polled past, re-poll with an empty window after delivery; oracle: Redirect state iff 3xx != 304, status() reports it, as_new_flow None exactly for 307/308 with POST/PUT/PATCH/DELETE, method per table checked on the new flow and at the receiving origin; every run is non-trivial",
            assumptions: &[A_COMMON],
            cells_total: scen_redirect::C15_CELLS,
            cells_what: "method x status 300..399 x auth policy x response body yes/no (first hop)",
            exhaustive_note: "all 3600 first-hop cells are enumerated four times in every quick run",
        },
        Prop {
            id: "C16",
            scenario: "redirect-world",
            run: scen_redirect::c16,
            quick: 150_000,
            thorough: 8_000_000,
            subs: &["chains"],
            level: "exploration",
            rule: "as C13; at every Prepare (redirect depth 0..3) the simulated cookie jar adds 0..60 headers with hop-tagged unique values, names from {cookie, authorization, connection, host, content-length, transfer-encoding} and random tokens, trimmed to requests C17 accepts; oracle at the receiving origin: every added header is on the wire, in the order added, ahead of every original header; distinct = abstract trace",
            assumptions: &[A_COMMON, "caller-added headers <= 60"],
            cells_total: 0,
            cells_what: "",
            exhaustive_note: "",
        },
        Prop {
            id: "C12",
            scenario: "hostile",
            run: scen_hostile::c12,
            quick: 150_000,
            thorough: 15_000_000,
            subs: &["mutated-exchanges", "alphabet-strings", "oversize-items"],
            level: "fault_enumeration",
            rule: "three interleaved sub-batches: (0) valid exchanges for every request configuration with 1..4 grammar-aware mutations of the server stream (bit flip, delete, duplicate, splice, decimal bloat, hex bloat, stray CR/LF, header flood, truncation, alphabet garbage; positions biased to structural bytes) under drawn arrival / buffer / timer schedules; (1) byte strings over a 23-symbol protocol alphabet enumerated by the run index - every string up to length 3 in quick, up to length 4 in thorough, drawn strings of length 5..8 beyond - offered to try_read_100, try_response and read in all three framings, one-shot and sliced; (2) oversize items (field name of 65535..70000 bytes, 20..40 digit length, 16..19 digit chunk size, 127..135 fields, five close conditions at once, giant reason / value / chunk extension); after the exchange comes to rest state-advancing calls are made on whatever state is left; every run is non-trivial; distinct = abstract trace (path length, end kind, call count)",
            assumptions: &[A_COMMON, "no claim about which error is returned", "hang detection: per-exchange step budget derived from the message sizes, plus a per-run watchdog that counts its own ticks (1600 x 25 ms)"],
            cells_total: 16,
            cells_what: "error site (Await100 / RecvResponse / RecvBody) + target call of the alphabet strings (5) + oversize / unsolicited kind (8)",
            exhaustive_note: "alphabet strings: all 12720 strings up to length 3 (quick) / all 292561 up to length 4 (thorough) are enumerated; each is offered to one drawn target call per run",
        },
    ]
}

fn load_known() {
    let path = format!("{}/known_findings.json", runner::verif_dir());
    let mut v = Vec::new();
    if let Ok(text) = std::fs::read_to_string(&path) {
        match json::parse(&text) {
            Ok(j) => {
                if let Some(arr) = j.get("findings").and_then(|a| a.as_arr()) {
                    for e in arr {
                        let g = |k: &str| e.get(k).and_then(|x| x.as_str()).unwrap_or("").to_string();
                        v.push(ctx::KnownFinding { property: g("property"), code: g("code"), key: g("key"), status: g("status"), what: g("what") });
                    }
                }
            }
            Err(e) => {
                eprintln!("HARNESS-ERROR cannot parse {}: {}", path, e);
                std::process::exit(2);
            }
        }
    }
    ctx::set_known(v);
}

fn main() {
    let args: Vec<String> = std::env::args().collect();
    ctx::install_panic_hook();
    load_known();
    let props = props();
    if args.len() >= 2 && args[1] == "--list" {
        for p in &props {
            println!("{} {} quick={} thorough={}", p.id, p.scenario, p.quick, p.thorough);
        }
        return;
    }
    if args.len() >= 3 && args[1] == "--replay" {
        std::process::exit(runner::replay_file(&props, &args[2]));
    }
    if args.len() < 3 {
        eprintln!("usage: hootsim <ID> quick|thorough | --replay <file> | --list");
        std::process::exit(2);
    }
    let id = &args[1];
    let thorough = match args[2].as_str() {
        "quick" => false,
        "thorough" => true,
        other => {
            eprintln!("HARNESS-ERROR unknown tier {}", other);
            std::process::exit(2);
        }
    };
    let seed = std::env::var("VERIF_SEED")
        .ok()
        .and_then(|s| {
            let s = s.trim().to_string();
            s.parse::<u64>().ok().or_else(|| s.parse::<i64>().ok().map(|v| v.unsigned_abs()))
        })
        .unwrap_or(20260926);
    let jobs = std::env::var("VERIF_JOBS").ok().and_then(|s| s.parse::<usize>().ok()).unwrap_or(16).clamp(1, 64);
    let scale = std::env::var("VERIF_SCALE").ok().and_then(|s| s.parse::<f64>().ok()).unwrap_or(1.0);
    let prop = match props.iter().find(|p| p.id == id.as_str()) {
        Some(p) => p,
        None => {
            eprintln!("HARNESS-ERROR unknown property {}", id);
            std::process::exit(2);
        }
    };
    let r = runner::run_check(prop, thorough, seed, jobs, scale);
    std::process::exit(r.exit);
}
