//! Scenario family `recvbody`: C07 (chunked response decoding) and C08 (length- and
//! close-delimited response bodies).
//!
//! Nondeterminism explored: arrival cut sets of the server's byte stream (TCP segmentation,
//! slow peers), the caller's output buffer sizes, re-polls with an unchanged window, toggling of
//! boundary stopping mid-body, and the peer closing the connection mid-body (truncation).

use ureq_proto::client::call::state as cs;
use ureq_proto::client::call::Call;
use ureq_proto::client::flow::state as fs;
use ureq_proto::client::flow::{Flow, RecvBodyResult, RecvResponseResult, SendRequestResult};
use ureq_proto::{BodyMode, Error};

use crate::ctx::{lib, set_observed, Ctx, R};
use crate::drive::{body_bytes, build_request, err_name};
use crate::gen::{gc, gen_arrival, gen_buf_len, gen_buf_mode, gen_coding, ArrMode, BufMode};
use crate::json::show_bytes;
use crate::{ensure, fail};

pub enum BodyRx {
    Flow(Flow<(), fs::RecvBody>),
    Call(Call<cs::RecvBody, ()>),
    Taken,
}

/// Reach the body-receiving state through the real API with the given response head.
pub fn reach_body_rx(use_call: bool, method: &str, head: &[u8]) -> Result<BodyRx, String> {
    reach_body_rx_cut(use_call, method, head, None, None)
}

/// `cut`: the head first arrives only up to this offset and the caller looks at it (a caller
/// that is handed a response proceeds with it - it cannot know better).
/// `interim`: an interim 1xx head that the peer sends first; the caller is handed that response,
/// knows that it is not the final one and polls on.
pub fn reach_body_rx_cut(use_call: bool, method: &str, head: &[u8], cut: Option<usize>, interim: Option<&[u8]>) -> Result<BodyRx, String> {
    let req = build_request(method, 11, "http://a.test/x", &[]);
    let mut buf = [0u8; 512];
    if use_call {
        let mut c = lib("Call::without_body", || Call::without_body(req)).map_err(|e| e.to_string())?;
        lib("Call<WithoutBody>::write", || c.write(&mut buf)).map_err(|e| e.to_string())?;
        let mut r = lib("Call::into_receive", || c.into_receive()).map_err(|e| e.to_string())?;
        if let Some(i) = interim {
            match lib("Call<RecvResponse>::try_response", || r.try_response(i)) {
                Ok(Some((n, _))) if n == i.len() => {}
                other => return Err(format!("interim head not accepted: {:?}", other.map(|o| o.map(|x| x.0)))),
            }
        }
        let mut early = false;
        if let Some(c) = cut {
            match lib("Call<RecvResponse>::try_response", || r.try_response(&head[..c])) {
                Ok(None) => {}
                Ok(Some(_)) => early = true,
                Err(e) => return Err(format!("prefix of the head refused: {e}")),
            }
        }
        if !early {
            match lib("Call<RecvResponse>::try_response", || r.try_response(head)) {
                Ok(Some((n, _))) if n == head.len() => {}
                other if interim.is_some() => return Err(format!("polling past the interim head refused: {:?}", other.map(|o| o.map(|x| x.0)))),
                other => return Err(format!("head not accepted: {:?}", other.map(|o| o.map(|x| x.0)))),
            }
        }
        match lib("Call::into_body", || r.into_body()) {
            Ok(Some(b)) => Ok(BodyRx::Call(b)),
            Ok(None) => Err("no body state".into()),
            Err(e) => Err(e.to_string()),
        }
    } else {
        let f = lib("Flow::new", || Flow::new(req)).map_err(|e| e.to_string())?;
        let mut f = lib("Flow<Prepare>::proceed", || f.proceed());
        lib("Flow<SendRequest>::write", || f.write(&mut buf)).map_err(|e| e.to_string())?;
        let mut r = match lib("Flow<SendRequest>::proceed", || f.proceed()) {
            Ok(Some(SendRequestResult::RecvResponse(r))) => r,
            _ => return Err("no RecvResponse".into()),
        };
        if let Some(i) = interim {
            match lib("Flow<RecvResponse>::try_response", || r.try_response(i)) {
                Ok((n, Some(_))) if n == i.len() => {}
                other => return Err(format!("interim head not accepted: {:?}", other.map(|o| o.0))),
            }
        }
        let mut early = false;
        if let Some(c) = cut {
            match lib("Flow<RecvResponse>::try_response", || r.try_response(&head[..c])) {
                Ok((_, None)) => {}
                Ok((_, Some(_))) => early = true,
                Err(e) => return Err(format!("prefix of the head refused: {e}")),
            }
        }
        if !early {
            match lib("Flow<RecvResponse>::try_response", || r.try_response(head)) {
                Ok((n, Some(_))) if n == head.len() => {}
                other if interim.is_some() => return Err(format!("polling past the interim head refused: {:?}", other.map(|o| o.0))),
                other => return Err(format!("head not accepted: {:?}", other.map(|o| o.0))),
            }
        }
        match lib("Flow<RecvResponse>::proceed", || r.proceed()) {
            Some(RecvResponseResult::RecvBody(b)) => Ok(BodyRx::Flow(b)),
            _ => Err("no RecvBody state".into()),
        }
    }
}

impl BodyRx {
    pub fn read(&mut self, ctx: &mut Ctx, input: &[u8], output: &mut [u8]) -> Result<(usize, usize), Error> {
        ctx.steps += 1;
        match self {
            BodyRx::Flow(f) => lib("Flow<RecvBody>::read", || f.read(input, output)),
            BodyRx::Call(c) => lib("Call<RecvBody>::read", || c.read(input, output)),
            BodyRx::Taken => unreachable!(),
        }
    }
    pub fn can_proceed(&self) -> bool {
        match self {
            BodyRx::Flow(f) => lib("Flow<RecvBody>::can_proceed", || f.can_proceed()),
            BodyRx::Call(c) => lib("Call<RecvBody>::is_ended", || c.is_ended() || c.is_close_delimited()),
            BodyRx::Taken => unreachable!(),
        }
    }
    pub fn set_stop(&mut self, on: bool) {
        match self {
            BodyRx::Flow(f) => lib("Flow<RecvBody>::stop_on_chunk_boundary", || f.stop_on_chunk_boundary(on)),
            BodyRx::Call(c) => lib("Call<RecvBody>::stop_on_chunk_boundary", || c.stop_on_chunk_boundary(on)),
            BodyRx::Taken => unreachable!(),
        }
    }
    pub fn on_boundary(&self) -> bool {
        match self {
            BodyRx::Flow(f) => lib("Flow<RecvBody>::is_on_chunk_boundary", || f.is_on_chunk_boundary()),
            BodyRx::Call(c) => lib("Call<RecvBody>::is_on_chunk_boundary", || c.is_on_chunk_boundary()),
            BodyRx::Taken => unreachable!(),
        }
    }
    pub fn body_mode(&self) -> Option<BodyMode> {
        match self {
            BodyRx::Flow(f) => Some(lib("Flow<RecvBody>::body_mode", || f.body_mode())),
            _ => None,
        }
    }
}

fn next_message(ctx: &mut Ctx) -> Vec<u8> {
    match ctx.draw(4) {
        0 => b"HTTP/1.1 200 OK\r\nContent-Length: 2\r\n\r\nhi".to_vec(),
        1 => b"0\r\n\r\n5\r\nhello\r\n".to_vec(),
        2 => b"\r\n\r\n\r\n".to_vec(),
        _ => b"HTTP/1.1 404 Not Found\r\nTransfer-Encoding: chunked\r\n\r\n3\r\nabc\r\n0\r\n\r\n".to_vec(),
    }
}

fn out_class(n: usize) -> u32 {
    match n {
        0 => 0,
        1 => 1,
        2..=4 => 2,
        _ => 3,
    }
}

// ============================================================================================ C07

/// Overrides that turn the seeded search into an enumeration of the small scope.
#[derive(Default)]
pub struct C07Plan {
    pub coding: Option<crate::gen::Coding>,
    pub sched: Option<Vec<usize>>,
    pub out_fixed: Option<usize>,
    pub stop: Option<bool>,
}

pub const C07_SMALL_CODINGS: u64 = (1 + 3 + 9 + 27) * 2 * 3 * 2;

/// The k-th coding of the small scope: <= 3 chunks of sizes 1..3, extension yes/no, 0..2
/// trailers, leading zeros yes/no.
pub fn c07_small_coding(mut k: u64, seed: u64) -> crate::gen::Coding {
    let zeros = k % 2;
    k /= 2;
    let trailers = (k % 3) as usize;
    k /= 3;
    let ext = k % 2 == 1;
    k /= 2;
    // k in 0..40: chunk count and sizes
    let mut sizes: Vec<usize> = Vec::new();
    let mut n = 0u32;
    let mut block = 1u64;
    while k >= block {
        k -= block;
        block *= 3;
        n += 1;
    }
    for _ in 0..n {
        sizes.push(1 + (k % 3) as usize);
        k /= 3;
    }
    crate::gen::encode_chunked(&crate::gen::CodingOpts { sizes, upper: false, leading_zeros: zeros as usize * 2, ext, trailers, payload_seed: seed, exact20: false, bws: 0 })
}

pub fn c07(ctx: &mut Ctx) -> R {
    if ctx.sub == 3 {
        // ---- enumerated small scope: coding x single cut (or trickle / one-shot) x output size x stop
        let k = ctx.index / 4;
        let coding = c07_small_coding(k % C07_SMALL_CODINGS, 7 + k % 5);
        // cut position varies fastest (after the coding), then output size, then stop: a quick
        // run already covers every (coding, cut) pair, a thorough run the whole product
        let r = k / C07_SMALL_CODINGS;
        let cl = coding.bytes.len() as u64;
        // cut sets: one-shot, every single cut, byte-by-byte, then every pair of cuts
        let pairs = if cl >= 3 { (cl - 1) * (cl - 2) / 2 } else { 0 };
        let total_c = cl + 2 + pairs;
        let c = r % total_c;
        let r2 = r / total_c;
        let out = [0usize, 1, 2, 3, 4, 65_536][((r2 + c) % 6) as usize];
        let stop = ((r2 / 6) + c + k) % 2 == 1;
        let sched: Vec<usize> = if c == cl + 1 {
            (1..=cl as usize).collect()
        } else if c == 0 || c == cl {
            vec![cl as usize]
        } else if c < cl {
            vec![c as usize, cl as usize]
        } else {
            // the (c - cl - 2)-th pair 1 <= i < j <= cl-1
            let mut idx = c - cl - 2;
            let mut i = 1u64;
            while idx >= cl - 1 - i {
                idx -= cl - 1 - i;
                i += 1;
            }
            let j = i + 1 + idx;
            vec![i as usize, j as usize, cl as usize]
        };
        ctx.count("p:small_scope_enumerated");
        return c07_with(ctx, C07Plan { coding: Some(coding), sched: Some(sched), out_fixed: Some(out), stop: Some(stop) });
    }
    c07_with(ctx, C07Plan::default())
}

pub fn c07_with(ctx: &mut Ctx, plan: C07Plan) -> R {
    let enumerated = plan.coding.is_some();
    set_observed(false);
    let use_call = ctx.chance(1, 3);
    let method = *ctx.pick(&["GET", "GET", "DELETE", "OPTIONS"]);
    let status = *ctx.pick(&[200u16, 200, 201, 404, 500, 301, 307, 399]);
    let head = format!("HTTP/1.1 {} X\r\n{}{}Transfer-Encoding: {}\r\n\r\n", status, if (300..400).contains(&status) && status != 399 { "Location: /n\r\n" } else { "" }, if ctx.chance(1, 8) { "Content-Length: 3\r\n" } else { "" }, *ctx.pick(&["chunked", "Chunked", "gzip, chunked"]));
    // history: an interim 1xx head first, polled past by an interim-aware caller (random runs only)
    let interim: Option<Vec<u8>> = if !enumerated && ctx.chance(1, 10) { Some(crate::scen_exchange::interim_1xx(ctx, None)) } else { None };
    if interim.is_some() {
        ctx.count("f:interim_1xx_before_final_head");
    }
    let mut rx = match reach_body_rx_cut(use_call, method, head.as_bytes(), None, interim.as_deref()) {
        Ok(v) => v,
        Err(e) if e.contains("polling past the interim head refused") => {
            ctx.count("p:interim_poll_refused");
            ctx.nontrivial = true;
            return Ok(());
        }
        Err(e) => {
            if e.contains("no RecvBody state") || e.contains("no body state") {
                set_observed(true);
                fail!("C07.no_body_state", "", "{} answered with [{}]: a chunked body follows but the flow does not enter the body state", method, show_bytes(head.as_bytes()));
            }
            fail!("FOREIGN", "", "cannot reach RecvBody: {}", e)
        }
    };
    set_observed(true);

    let coding = match &plan.coding {
        Some(c) => c.clone(),
        None => {
            if ctx.sub == 1 && ctx.chance(1, 12) {
                ctx.count("f:peer_declares_chunk_of_4GiB_or_more");
                crate::gen::gen_huge_chunk_prefix(ctx)
            } else {
                gen_coding(ctx)
            }
        }
    };
    let cl = coding.bytes.len();
    let tail = next_message(ctx);
    let mut stream = coding.bytes.clone();
    stream.extend_from_slice(&tail);
    let truncated = ctx.sub == 1 && !enumerated;
    let total_visible = if coding.incomplete {
        cl
    } else if truncated {
        // the peer closes the connection mid-coding: input simply stops
        ctx.count("f:conn_close_mid_body");
        ctx.range(0, cl - 1)
    } else {
        stream.len()
    };
    // data bytes before each coding offset
    let mut data_before = vec![0usize; cl + 1];
    for i in 0..cl {
        data_before[i + 1] = data_before[i] + (coding.class[i] == gc::DATA) as usize;
    }
    // payload offset -> chunk index
    let chunk_of = |poff: usize| -> usize { coding.chunks.iter().position(|c| poff >= c.payload_at && poff < c.payload_at + c.len).unwrap_or(usize::MAX) };
    // structural marks: every class change
    let mut marks: Vec<usize> = Vec::new();
    for i in 1..cl {
        if coding.class[i] != coding.class[i - 1] {
            marks.push(i);
        }
    }
    marks.push(cl);
    let (sched, amode) = match &plan.sched {
        Some(s) => (s.clone(), ArrMode::Structural),
        None => gen_arrival(ctx, total_visible.min(cl), &marks, 400),
    };
    let mut sched = sched;
    if !truncated {
        sched.push(stream.len());
    }
    let bmode = gen_buf_mode(ctx);
    let mut stop = match plan.stop {
        Some(v) => v,
        None => ctx.flip(),
    };
    let toggle = !enumerated && ctx.chance(1, 5);
    rx.set_stop(stop);
    ctx.sample(|| format!("api={} chunked coding {} bytes ({} chunks {:?}, payload {}), next message {} bytes, arrival {:?} ({} cuts), buffers {:?}, boundary stop {}{}{}", if use_call { "Call" } else { "Flow" }, cl, coding.chunks.len(), coding.chunks.iter().map(|c| c.len).take(6).collect::<Vec<_>>(), coding.payload.len(), tail.len(), amode, sched.len(), bmode, stop, if toggle { " (toggled)" } else { "" }, if truncated { ", truncated by peer close" } else { "" }));
    match amode {
        ArrMode::Trickle => ctx.count("f:seg_trickle"),
        ArrMode::Structural => ctx.count("f:seg_cut_structural"),
        ArrMode::OneShot => {}
        _ => ctx.count("f:seg_cut_random"),
    }
    if matches!(bmode, BufMode::Tiny | BufMode::One) {
        ctx.count("f:backpressure");
    }

    let mut consumed = 0usize;
    let mut produced = 0usize;
    let mut out = vec![0u8; 65_536];
    let mut reads = 0usize;
    let mut ended_seen = false;

    let check_read = |ctx: &mut Ctx, rx: &mut BodyRx, visible: usize, out_len: usize, stop: bool, consumed: &mut usize, produced: &mut usize, out: &mut Vec<u8>| -> R<(usize, usize)> {
        let w = &stream[*consumed..visible];
        for b in out[..out_len].iter_mut() {
            *b = 0xEE;
        }
        let was_ended = rx.can_proceed();
        let r = rx.read(ctx, w, &mut out[..out_len]);
        ctx.ev(|| format!("read(window={} [{}..{}], out={}, stop={}) -> {:?}", w.len(), *consumed, visible, out_len, stop, r.as_ref().map_err(err_name)));
        let (c, p) = match r {
            Ok(v) => v,
            Err(e) => fail!("C07.unexpected_error", "", "read of a valid coding failed at coding offset {}: {} [window {:?}]", *consumed, e, show_bytes(&w[..w.len().min(40)])),
        };
        ensure!(c <= w.len(), "C07.consumed_gt_window", "consumed {} > window {}", c, w.len());
        ensure!(p <= out_len, "C07.produced_gt_output", "produced {} > output space {}", p, out_len);
        if was_ended {
            ensure!(c == 0 && p == 0, "C07.read_after_end", "read after the end consumed {} / produced {}", c, p);
        }
        if *consumed + c > cl {
            fail!("C07.over_read", "", "consumed {} bytes beyond the end of the coding ({} of {} + {})", *consumed + c - cl, *consumed, cl, c);
        }
        ensure!(*produced + p <= coding.payload.len(), "C07.too_much_output", "more output than payload");
        ensure!(out[..p] == coding.payload[*produced..*produced + p], "C07.wrong_payload", "output differs from the chunk data at payload offset {}", *produced);
        if stop && p > 0 {
            let a = chunk_of(*produced);
            let b = chunk_of(*produced + p - 1);
            if a != b {
                fail!("C07.read_spans_chunks", "", "with boundary stopping on, one read returned data of chunks {} and {} (payload {}..{})", a, b, *produced, *produced + p);
            }
        }
        *consumed += c;
        *produced += p;
        ensure!(*produced == data_before[*consumed], "C07.payload_not_in_step", "after consuming {} coding bytes {} data bytes are due, {} were produced", *consumed, data_before[*consumed], *produced);
        let ended = rx.can_proceed();
        if ended && (*consumed != cl || coding.incomplete) {
            fail!("C07.ended_early", "", "body reported ended after {} of {} coding bytes", *consumed, cl);
        }
        if !ended && *consumed == cl && !coding.incomplete {
            fail!("C07.not_ended", "", "final CRLF consumed ({} of {}) but the body is not reported ended", *consumed, cl);
        }
        if rx.on_boundary() {
            let at_chunk_edge = coding.chunks.iter().any(|ch| ch.payload_at == *produced) || *produced == coding.payload.len();
            ensure!(at_chunk_edge, "C07.boundary_query", "is_on_chunk_boundary() is true in the middle of a chunk (payload offset {})", *produced);
        }
        // coverage cell: grammar class at the window end x output class x stop
        let end_class = if visible == 0 { gc::COUNT } else if visible - 1 < cl { coding.class[visible - 1] } else { gc::COUNT };
        if end_class < gc::COUNT {
            ctx.cell((end_class as u32) * 8 + out_class(out_len) * 2 + stop as u32);
        }
        ctx.sig3(end_class as u64 * 16 + out_class(out_len) as u64 * 2 + stop as u64, (c > 0) as u64 * 2 + (p > 0) as u64, ended as u64);
        Ok((c, p))
    };

    for &visible in &sched {
        // drain what the caller chooses to drain at this arrival
        let mut idle = 0;
        loop {
            if toggle && ctx.chance(1, 4) {
                stop = !stop;
                rx.set_stop(stop);
                ctx.count("p:stop_toggled_mid_body");
            }
            let out_len = match plan.out_fixed {
                Some(n) => n,
                None => gen_buf_len(ctx, bmode),
            };
            let (c, p) = check_read(ctx, &mut rx, visible, out_len, stop, &mut consumed, &mut produced, &mut out)?;
            reads += 1;
            if rx.can_proceed() {
                ended_seen = true;
            }
            if c == 0 && p == 0 {
                idle += 1;
                if idle == 1 && !enumerated && ctx.chance(1, 4) {
                    ctx.count("f:stall_repoll");
                    continue; // re-poll the unchanged window once
                }
                break;
            }
            if reads > 200_000 {
                fail!("C07.hang", "", "more than 200000 reads");
            }
            if !enumerated && ctx.chance(1, 6) {
                break; // the caller goes back to the socket before draining
            }
        }
    }
    // fair tail: everything that will ever arrive is visible, buffers are large
    let visible = *sched.last().unwrap();
    let mut budget = 2 * (visible - consumed) + 16;
    loop {
        let before = (consumed, produced);
        // once only framing is left (no data byte ahead) any output size, also 0, must do
        let only_framing = !truncated && produced == coding.payload.len();
        let out_len = if only_framing && ctx.flip() {
            ctx.count("p:zero_output_for_framing_only");
            0
        } else if ctx.chance(1, 3) {
            ctx.range(1, 8)
        } else {
            65_536
        };
        check_read(ctx, &mut rx, visible, out_len, stop, &mut consumed, &mut produced, &mut out)?;
        reads += 1;
        if rx.can_proceed() {
            ended_seen = true;
            break;
        }
        if (consumed, produced) == before {
            break;
        }
        budget -= 1;
        if budget == 0 {
            fail!("C07.no_bounded_progress", "", "decoding did not finish within the step bound once the schedule turned fair");
        }
    }
    if truncated {
        if rx.can_proceed() {
            fail!("C07.ended_on_truncated", "", "a coding truncated at {} of {} bytes is reported ended", visible, cl);
        }
        if coding.incomplete {
            ensure!(produced == coding.payload.len(), "C07.no_bounded_progress", "only {} of the {} data bytes that arrived of a huge chunk were delivered", produced, coding.payload.len());
        }
        ctx.count("p:truncated_never_ended");
    } else {
        if !ended_seen {
            fail!("C07.not_ended", "liveness", "all {} coding bytes were offered with large buffers but the body never ended (consumed {}, produced {})", cl, consumed, produced);
        }
        ensure!(consumed == cl, "C07.wrong_total_consumed", "consumed {} != coding length {}", consumed, cl);
        ensure!(produced == coding.payload.len(), "C07.wrong_total_produced", "produced {} != payload {}", produced, coding.payload.len());
        // one more read with the next message in the window: nothing may be taken
        let (c, p) = check_read(ctx, &mut rx, stream.len(), 64, stop, &mut consumed, &mut produced, &mut out)?;
        ensure!(c == 0 && p == 0, "C07.read_after_end", "read after the end took {} bytes of the next message", c);
    }
    if coding.chunks.len() >= 2 && stop {
        ctx.count("p:multi_chunk_with_stop");
    }
    ctx.nontrivial = reads >= 2;
    Ok(())
}

// ============================================================================================ C08

pub fn c08(ctx: &mut Ctx) -> R {
    set_observed(false);
    let close_delim = ctx.sub == 1;
    let use_call = ctx.chance(1, 3);
    let method = *ctx.pick(&["GET", "GET", "DELETE", "OPTIONS", "CONNECT", "TRACE"]);
    let n: u64 = if close_delim {
        match ctx.draw(4) {
            0 => 0,
            1 => ctx.range(1, 300) as u64,
            2 => ctx.range(1, 70_000) as u64,
            _ => ctx.range(1, 20) as u64,
        }
    } else {
        match ctx.draw(9) {
            0 => ctx.range(1, 3) as u64,
            1 | 2 => ctx.range(1, 300) as u64,
            3 => ctx.range(10_239, 10_249) as u64,
            4 => 70_000,
            5 => ctx.range(301, 70_000) as u64,
            6 => (1u64 << 32) + 5,
            7 => u64::MAX,
            _ => ctx.range(4, 64) as u64,
        }
    };
    let http10 = close_delim && ctx.flip();
    // statuses with a body in every class (a redirect with Content-Length has one too)
    let status = if method == "CONNECT" { *ctx.pick(&[404u16, 407, 500, 301, 302]) } else { *ctx.pick(&[200u16, 200, 201, 205, 301, 302, 307, 404, 500, 999]) };
    // legal fields with an empty value may precede the framing field
    let empty = *ctx.pick(&["", "", "X-Trace-Id:\r\n", "Server:   \r\n"]);
    let loc = if (300..400).contains(&status) || (status == 201 && ctx.flip()) { "Location: /moved\r\n" } else { "" };
    let head = if close_delim {
        let st = if (300..400).contains(&status) { if method == "CONNECT" { 404 } else { 200 } } else { status };
        format!("HTTP/1.{} {} OK\r\nX-A: b\r\n\r\n", if http10 { 0 } else { 1 }, st)
    } else if ctx.chance(1, 6) {
        // an HTTP/1.0 response cannot be chunked: the Content-Length governs
        format!("HTTP/1.0 {} OK\r\n{}{}Transfer-Encoding: chunked\r\nContent-Length: {}\r\n\r\n", status, empty, loc, n)
    } else {
        // a transfer coding list without "chunked" in it does not change the framing
        let te = *ctx.pick(&["", "", "", "", "Transfer-Encoding: gzip,\r\n", "Transfer-Encoding: , gzip\r\n", "Transfer-Encoding: chunke\r\n", "Transfer-Encoding: identity\r\n"]);
        format!("HTTP/1.1 {} OK\r\n{}{}{}Content-Length: {}{}\r\n\r\n", status, empty, loc, te, if ctx.chance(1, 8) { "0000000000000000000000" } else { "" }, n)
    };
    // the head may arrive in two pieces (not inside a 3xx head: those cuts are owned by C05)
    let cut = if !(300..400).contains(&status) && ctx.chance(1, 3) { Some(ctx.range(0, head.len() - 1)) } else { None };
    let interim: Option<Vec<u8>> = if ctx.chance(1, 10) { Some(crate::scen_exchange::interim_1xx(ctx, None)) } else { None };
    if interim.is_some() {
        ctx.count("f:interim_1xx_before_final_head");
    }
    let mut rx = match reach_body_rx_cut(use_call, method, head.as_bytes(), cut, interim.as_deref()) {
        Ok(v) => v,
        Err(e) if e.contains("polling past the interim head refused") => {
            ctx.count("p:interim_poll_refused");
            ctx.nontrivial = true;
            return Ok(());
        }
        Err(e) => {
            if e.contains("no RecvBody state") || e.contains("no body state") {
                // by construction a non-empty body follows (N >= 1 or close-delimited, status and
                // method that have one)
                set_observed(true);
                fail!("C08.no_body_state", "", "{} answered with [{}]: a body follows but the flow does not enter the body state", method, show_bytes(head.as_bytes()));
            }
            fail!("FOREIGN", "", "cannot reach RecvBody: {}", e)
        }
    };
    set_observed(true);
    let seed = ctx.draw(1 << 32);
    // what the server sends: for huge N only a prefix ever arrives
    let huge = !close_delim && n > 70_000;
    let truncated = !close_delim && !huge && ctx.chance(1, 8);
    let sent: usize = if huge {
        ctx.range(0, 4000)
    } else if truncated {
        ctx.range(0, n as usize - 1)
    } else {
        n as usize
    };
    let mut stream = body_bytes(seed, 0, sent);
    let tail = if close_delim || truncated || (sent as u64) < n { Vec::new() } else { next_message(ctx) };
    stream.extend_from_slice(&tail);
    let (sched, amode) = gen_arrival(ctx, stream.len(), &[sent, sent.saturating_sub(1)], 300);
    let bmode = gen_buf_mode(ctx);
    ctx.sample(|| format!("api={} {} body N={} ({} bytes arrive{}), next message {} bytes, arrival {:?} ({} cuts), buffers {:?}", if use_call { "Call" } else { "Flow" }, if close_delim { "close-delimited" } else { "content-length" }, n, sent, if truncated { ", peer closes early" } else { "" }, tail.len(), amode, sched.len(), bmode));
    match amode {
        ArrMode::Trickle => ctx.count("f:seg_trickle"),
        ArrMode::Structural => ctx.count("f:seg_cut_structural"),
        ArrMode::OneShot => {}
        _ => ctx.count("f:seg_cut_random"),
    }
    if truncated {
        ctx.count("f:conn_close_mid_body");
    }
    if let Some(m) = rx.body_mode() {
        if close_delim {
            ensure!(m == BodyMode::CloseDelimited, "C08.body_mode", "body_mode() = {:?} for a close-delimited response", m);
        } else {
            ensure!(matches!(m, BodyMode::LengthDelimited(_)), "C08.body_mode", "body_mode() = {:?} for a content-length response", m);
        }
    }
    let mut remaining = n;
    let mut consumed = 0usize;
    let mut out = vec![0u8; 65_536];
    let mut reads = 0;
    if close_delim {
        ensure!(rx.can_proceed(), "C08.close_delimited_not_ready", "close-delimited body: can_proceed() false before any read");
    } else {
        ensure!(!rx.can_proceed(), "C08.complete_early", "can_proceed() true before any byte of N={}", n);
    }
    let mut sched2 = sched.clone();
    sched2.push(stream.len()); // fair tail: one more round with everything visible
    for (round, &visible) in sched2.iter().enumerate() {
        let fair = round + 1 == sched2.len();
        loop {
            let out_len = if fair { 65_536 } else { gen_buf_len(ctx, bmode) };
            let w = &stream[consumed..visible];
            for b in out[..out_len].iter_mut() {
                *b = 0xEE;
            }
            let r = rx.read(ctx, w, &mut out[..out_len]);
            reads += 1;
            ctx.ev(|| format!("read(window={}, out={}) remaining={} -> {:?}", w.len(), out_len, remaining, r.as_ref().map_err(err_name)));
            let (c, p) = match r {
                Ok(v) => v,
                Err(e) => fail!("C08.unexpected_error", "", "read failed: {}", e),
            };
            let want = if close_delim { w.len().min(out_len) } else { (w.len().min(out_len) as u64).min(remaining) as usize };
            ensure!(c == p, "C08.consumed_ne_produced", "consumed {} != produced {}", c, p);
            if c != want {
                if !close_delim && c as u64 > remaining {
                    fail!("C08.over_read", "", "read consumed {} with only {} of N={} remaining", c, remaining, n);
                }
                fail!("C08.wrong_amount", "", "read(window={}, out={}) with {} remaining moved {} bytes, expected {}", w.len(), out_len, remaining, c, want);
            }
            ensure!(out[..p] == w[..c], "C08.not_verbatim", "output differs from input at body offset {}", consumed);
            consumed += c;
            if !close_delim {
                remaining -= c as u64;
            }
            ctx.sig3(close_delim as u64, out_class(out_len) as u64 * 4 + (w.len().min(3)) as u64, (c > 0) as u64);
            let cp = rx.can_proceed();
            if close_delim {
                ensure!(cp, "C08.close_delimited_not_ready", "close-delimited body: can_proceed() false after a read");
            } else {
                if cp && remaining > 0 {
                    fail!("C08.complete_early", "", "can_proceed() true with {} of N={} bytes outstanding", remaining, n);
                }
                if !cp && remaining == 0 {
                    fail!("C08.not_complete", "", "all N={} bytes delivered but can_proceed() is false", n);
                }
            }
            if c == 0 {
                break;
            }
            if !fair && ctx.chance(1, 6) {
                break;
            }
        }
    }
    if !close_delim {
        if (sent as u64) >= n {
            ensure!(remaining == 0, "C08.no_bounded_progress", "all bytes offered with large buffers but {} remain", remaining);
            ensure!(consumed as u64 == n, "C08.wrong_total", "consumed {} != N {}", consumed, n);
        } else {
            ensure!(!rx.can_proceed(), "C08.complete_early", "body truncated at {} of {} reported complete", sent, n);
            ctx.count("p:truncated_never_complete");
        }
    }
    // terminal state: a close-delimited body always marks the connection for closing
    if close_delim {
        if let BodyRx::Flow(f) = std::mem::replace(&mut rx, BodyRx::Taken) {
            match lib("Flow<RecvBody>::proceed", || f.proceed()) {
                Some(RecvBodyResult::Cleanup(c)) => {
                    let mc = lib("Flow<Cleanup>::must_close_connection", || c.must_close_connection());
                    ensure!(mc, "C08.close_delimited_reusable", "connection with a close-delimited body is not marked must-close");
                }
                Some(RecvBodyResult::Redirect(_)) => fail!("C08.wrong_state", "", "non-3xx response ended in Redirect"),
                None => fail!("C08.close_delimited_not_ready", "proceed", "proceed() returned None for a close-delimited body"),
            }
        }
    }
    ctx.nontrivial = reads >= 2;
    Ok(())
}
