//! Request configurations: generator, the expected request head (RefRequestHead) and the
//! validity classification of C17 (RefRequestValidity).

use ureq_proto::http::Request;

use crate::ctx::Ctx;
use crate::drive::{build_request, Hdr};
use crate::gen::{gen_token_name, gen_value};
use crate::refs::{method_needs_body, method_ok_for_version, ParsedReq, RefUri, METHODS};

#[derive(Clone, Debug, PartialEq, Eq)]
pub enum Framing {
    /// caller supplied nothing
    None,
    /// `transfer-encoding: chunked` supplied (index: true = among caller-added headers)
    Chunked(bool),
    /// `content-length: n` supplied
    Sized(u64, bool),
}

#[derive(Clone, Debug)]
pub struct ReqCfg {
    pub method: String,
    /// 10 | 11 (9, 20, 30 only in C17)
    pub version: u8,
    pub uri: RefUri,
    /// original request headers in insertion order
    pub orig: Vec<Hdr>,
    /// caller-added headers (Flow<Prepare>::header) in the order added
    pub added: Vec<Hdr>,
    pub despite: bool,
    pub framing: Framing,
    pub expect: bool,
}

impl ReqCfg {
    pub fn uri_string(&self) -> String {
        self.uri.render()
    }
    pub fn build(&self) -> Request<()> {
        build_request(&self.method, self.version, &self.uri_string(), &self.orig)
    }
    pub fn body_due(&self) -> bool {
        method_needs_body(&self.method) || self.despite
    }
    /// chunked body on the wire?
    pub fn body_chunked(&self) -> bool {
        self.body_due() && !matches!(self.framing, Framing::Sized(..))
    }
    pub fn sized(&self) -> Option<u64> {
        match self.framing {
            Framing::Sized(n, _) => Some(n),
            _ => None,
        }
    }
    pub fn summary(&self) -> String {
        format!(
            "{} {} HTTP/{}.{} orig={} added={} framing={:?} expect={} despite={}",
            self.method,
            self.uri_string(),
            self.version / 10,
            self.version % 10,
            self.orig.len(),
            self.added.len(),
            self.framing,
            self.expect,
            self.despite
        )
    }
}

/// Original headers as `http::HeaderMap` iterates them: grouped by name in order of first
/// occurrence, values in insertion order.
pub fn grouped(orig: &[Hdr]) -> Vec<Hdr> {
    let mut names: Vec<String> = Vec::new();
    for (n, _) in orig {
        let l = n.to_ascii_lowercase();
        if !names.contains(&l) {
            names.push(l);
        }
    }
    let mut out = Vec::new();
    for n in names {
        for (k, v) in orig {
            if k.to_ascii_lowercase() == n {
                out.push((n.clone(), v.clone()));
            }
        }
    }
    out
}

#[derive(Clone, Debug)]
pub struct ExpectedHead {
    pub method: String,
    pub target: String,
    pub version: String,
    /// caller-added then original (minus suppressed), in wire order
    pub fixed: Vec<Hdr>,
    /// synthesised lines that must each appear exactly once, anywhere
    pub synth: Vec<Hdr>,
    /// acceptable alternative values for a synthesised Host
    pub host_alt: Vec<Vec<u8>>,
    /// per entry of `fixed`: the line may be absent (an inherited header that a redirect may or
    /// may not carry over: C13 says when Authorization must be absent, not that it must be kept)
    pub optional: Vec<bool>,
}

/// `suppressed`: lower-case names of inherited (original) headers a redirect suppresses.
pub fn expected_head(c: &ReqCfg, suppressed: &[&str]) -> ExpectedHead {
    expected_head_opt(c, suppressed, &[])
}

/// `optional_names`: lower-case names of inherited headers that may or may not be carried over.
pub fn expected_head_opt(c: &ReqCfg, suppressed: &[&str], optional_names: &[&str]) -> ExpectedHead {
    let mut fixed: Vec<Hdr> = c.added.iter().map(|(n, v)| (n.to_ascii_lowercase(), v.clone())).collect();
    let mut optional = vec![false; fixed.len()];
    for (n, v) in grouped(&c.orig) {
        if !suppressed.contains(&n.as_str()) {
            optional.push(optional_names.contains(&n.as_str()));
            fixed.push((n, v));
        }
    }
    let mut synth = Vec::new();
    let mut host_alt = Vec::new();
    if !fixed.iter().any(|(n, _)| n == "host") {
        synth.push(("host".to_string(), c.uri.host.clone().into_bytes()));
        host_alt.push(c.uri.authority().into_bytes());
        host_alt.push(format!("{}:{}", c.uri.host, c.uri.eff_port()).into_bytes());
    }
    if c.body_due() {
        let has_te = fixed.iter().any(|(n, v)| n == "transfer-encoding" && v.eq_ignore_ascii_case(b"chunked"));
        let has_cl = fixed.iter().any(|(n, _)| n == "content-length");
        if !has_te && !has_cl {
            synth.push(("transfer-encoding".to_string(), b"chunked".to_vec()));
        }
    }
    ExpectedHead {
        method: c.method.clone(),
        target: c.uri.path_and_query(),
        version: format!("HTTP/{}.{}", c.version / 10, c.version % 10),
        fixed,
        synth,
        host_alt,
        optional,
    }
}

/// Compare a strictly parsed wire head with the expectation.
pub fn compare_head(p: &ParsedReq, e: &ExpectedHead) -> Result<(), String> {
    if p.method != e.method {
        return Err(format!("method on the wire {:?}, request has {:?}", p.method, e.method));
    }
    if p.target != e.target {
        return Err(format!("request target on the wire {:?}, expected {:?}", p.target, e.target));
    }
    if p.version != e.version {
        return Err(format!("version on the wire {:?}, expected {:?}", p.version, e.version));
    }
    let mut synth_left: Vec<&Hdr> = e.synth.iter().collect();
    let mut fi = 0usize;
    for (n, v) in &p.fields {
        if fi < e.fixed.len() && e.fixed[fi].0 == *n && e.fixed[fi].1 == *v {
            fi += 1;
            continue;
        }
        // optional expected lines that are not there: look past them for a match
        let mut fj = fi;
        while fj < e.fixed.len() && e.optional[fj] && !(e.fixed[fj].0 == *n && e.fixed[fj].1 == *v) {
            fj += 1;
        }
        if fj > fi && fj < e.fixed.len() && e.fixed[fj].0 == *n && e.fixed[fj].1 == *v {
            fi = fj + 1;
            continue;
        }
        if let Some(pos) = synth_left.iter().position(|s| s.0 == *n && (s.1 == *v || (n == "host" && e.host_alt.iter().any(|a| a == v)))) {
            synth_left.remove(pos);
            continue;
        }
        return Err(format!(
            "unexpected header line {:?}: {:?} at field {} (next expected: {:?})",
            n,
            crate::json::show_bytes(v),
            fi,
            e.fixed.get(fi).map(|h| format!("{}: {}", h.0, crate::json::show_bytes(&h.1)))
        ));
    }
    while fi < e.fixed.len() && e.optional[fi] {
        fi += 1;
    }
    if fi < e.fixed.len() {
        return Err(format!("header {:?}: {:?} is missing on the wire", e.fixed[fi].0, crate::json::show_bytes(&e.fixed[fi].1)));
    }
    if let Some(s) = synth_left.first() {
        return Err(format!("synthesised header {:?} is missing on the wire", s.0));
    }
    let hosts = p.fields.iter().filter(|(n, _)| n == "host").count();
    if hosts != 1 {
        return Err(format!("{} Host headers on the wire", hosts));
    }
    Ok(())
}

pub const HOSTS: [&str; 5] = ["a.test", "b.test", "c.test", "a.test.evil.example", "xa.test"];

pub fn gen_path(ctx: &mut Ctx) -> String {
    // no dot segments, no empty segments (see DESIGN section 7)
    let n = ctx.range(0, 3);
    let mut p = String::new();
    for _ in 0..n {
        p.push('/');
        p.push_str(*ctx.pick(&["a", "b", "docs", "x-1", "v2", "index.html", "~u", "q_r"]));
    }
    if p.is_empty() || ctx.chance(1, 5) {
        p.push('/');
    }
    p
}

pub fn gen_uri(ctx: &mut Ctx) -> RefUri {
    let scheme = if ctx.chance(1, 3) { "https" } else { "http" };
    let host = *ctx.pick(&HOSTS);
    let port = match ctx.draw(5) {
        0 => Some(8080),
        1 => Some(if scheme == "https" { 8443 } else { 81 }),
        _ => None,
    };
    let path = gen_path(ctx);
    let query = match ctx.draw(8) {
        0 | 1 => Some("x=1".to_string()),
        2 | 3 => Some("a=b&c=d".to_string()),
        4 => Some(String::new()),
        _ => None,
    };
    RefUri { scheme: scheme.to_string(), host: host.to_string(), port, path, query }
}

pub fn gen_plain_headers(ctx: &mut Ctx, max: usize) -> Vec<Hdr> {
    let n = match ctx.draw(10) {
        0 => max,
        1 => ctx.range(0, max),
        _ => ctx.range(0, 5.min(max)),
    };
    let mut v: Vec<Hdr> = Vec::new();
    for _ in 0..n {
        let name = if !v.is_empty() && ctx.chance(1, 6) {
            // repeated name
            v[ctx.draw_usize(v.len())].0.clone()
        } else {
            match ctx.draw(8) {
                0 => "accept".to_string(),
                1 => "user-agent".to_string(),
                2 => "x-trace".to_string(),
                _ => gen_token_name(ctx).to_ascii_lowercase(),
            }
        };
        let mut val = gen_value(ctx);
        // http::HeaderValue refuses nothing we generate; keep values free of leading/trailing blanks
        while val.first() == Some(&b' ') || val.first() == Some(&b'\t') {
            val.remove(0);
        }
        v.push((name, val));
    }
    v
}

/// A request configuration that C17 accepts (used by every scenario that needs a valid request).
pub fn gen_valid_req(ctx: &mut Ctx, allow_expect: bool, flow_api: bool) -> ReqCfg {
    let version = if ctx.chance(1, 4) { 10 } else { 11 };
    let method = loop {
        let m = *ctx.pick(&METHODS);
        if method_ok_for_version(m, version == 11) {
            break m.to_string();
        }
    };
    let needs = method_needs_body(&method);
    let despite = flow_api && !needs && ctx.chance(1, 8);
    let body_due = needs || despite;
    let uri = gen_uri(ctx);
    // mostly a handful; sometimes up to the documented capacity (60 + the two synthesised ones)
    let big = ctx.chance(1, 12);
    let mut orig = gen_plain_headers(ctx, if big { 60 } else { 12 });
    let mut added = if flow_api { gen_plain_headers(ctx, if big { 58 } else { 6 }) } else { Vec::new() };
    let mut framing = Framing::None;
    if body_due {
        match ctx.draw(4) {
            0 => {
                let in_added = flow_api && ctx.flip();
                let v = if ctx.chance(1, 4) { b"Chunked".to_vec() } else { b"chunked".to_vec() };
                let h = ("transfer-encoding".to_string(), v);
                insert_at(ctx, if in_added { &mut added } else { &mut orig }, h);
                framing = Framing::Chunked(in_added);
            }
            1 | 2 => {
                let n = match ctx.draw(5) {
                    0 => 0,
                    1 => ctx.range(1, 3) as u64,
                    2 => ctx.range(1, 300) as u64,
                    3 => ctx.range(10_230, 10_260) as u64,
                    _ => ctx.range(1, 40) as u64,
                };
                let in_added = flow_api && ctx.flip();
                let h = ("content-length".to_string(), n.to_string().into_bytes());
                insert_at(ctx, if in_added { &mut added } else { &mut orig }, h);
                framing = Framing::Sized(n, in_added);
            }
            _ => {}
        }
    }
    // explicit Host
    if ctx.chance(1, 5) {
        let in_added = flow_api && ctx.flip();
        // an explicitly supplied Host may also be empty
        let h = ("host".to_string(), if ctx.chance(1, 6) { Vec::new() } else { format!("{}", uri.authority()).into_bytes() });
        insert_at(ctx, if in_added { &mut added } else { &mut orig }, h);
    }
    let expect = allow_expect && ctx.chance(1, 3);
    if expect {
        insert_at(ctx, &mut orig, ("expect".to_string(), b"100-continue".to_vec()));
        if ctx.chance(1, 10) {
            // a repeated Expect field; 100-continue need not be the first one
            insert_at(ctx, &mut orig, ("Expect".to_string(), b"x-priority".to_vec()));
        }
    }
    ReqCfg { method, version, uri, orig, added, despite, framing, expect }
}

pub fn insert_at(ctx: &mut Ctx, v: &mut Vec<Hdr>, h: Hdr) {
    let at = ctx.range(0, v.len());
    v.insert(at, h);
}

// ---------------------------------------------------------------------------- C17 validity

#[derive(Clone, Copy, Debug, PartialEq, Eq)]
pub enum Validity {
    Valid,
    Invalid,
    DontCare,
}

/// The classes of C17 over the effective headers (caller-added + original).
/// `api`: 0 = flow, 1 = Call::with_body, 2 = Call::without_body.
pub fn classify(c: &ReqCfg, api: u8) -> (Validity, &'static str) {
    let eff: Vec<(String, &Vec<u8>)> = c.added.iter().chain(c.orig.iter()).map(|(n, v)| (n.to_ascii_lowercase(), v)).collect();
    if c.version != 10 && c.version != 11 {
        return (Validity::Invalid, "version");
    }
    if !method_ok_for_version(&c.method, c.version == 11) {
        return (Validity::Invalid, "method-version");
    }
    let hosts: Vec<&&Vec<u8>> = eff.iter().filter(|(n, _)| n == "host").map(|(_, v)| v).collect();
    if hosts.len() > 1 {
        return (Validity::Invalid, "multi-host");
    }
    let cls: Vec<&&Vec<u8>> = eff.iter().filter(|(n, _)| n == "content-length").map(|(_, v)| v).collect();
    if cls.len() > 1 {
        return (Validity::Invalid, "multi-content-length");
    }
    if hosts.iter().any(|v| std::str::from_utf8(v).is_err() || v.iter().any(|b| *b >= 0x80)) {
        return (Validity::DontCare, "non-textual-host");
    }
    let mut has_cl = false;
    if let Some(v) = cls.first() {
        let s = std::str::from_utf8(v).ok();
        match s {
            Some(s) if !s.is_empty() && s.bytes().all(|b| b.is_ascii_digit()) => {
                if s.parse::<u64>().is_err() {
                    // numeric but not representable: the statement says "non-numeric"
                    return (Validity::DontCare, "content-length-overflow");
                }
                has_cl = true;
            }
            Some(s) if s.starts_with('+') && s.len() > 1 && s[1..].bytes().all(|b| b.is_ascii_digit()) => return (Validity::DontCare, "content-length-plus"),
            _ => return (Validity::Invalid, "bad-content-length"),
        }
    }
    let tes: Vec<&&Vec<u8>> = eff.iter().filter(|(n, _)| n == "transfer-encoding").map(|(_, v)| v).collect();
    let has_chunked = tes.iter().any(|v| v.eq_ignore_ascii_case(b"chunked"));
    if !tes.is_empty() && !has_chunked {
        return (Validity::DontCare, "other-transfer-encoding");
    }
    let needs = method_needs_body(&c.method);
    let framing_hdr = has_cl || has_chunked;
    match api {
        0 => {
            if !needs && !c.despite && framing_hdr {
                return (Validity::Invalid, "body-on-bodyless-method");
            }
        }
        1 => {
            // with-body constructor
            if !needs {
                return (Validity::Invalid, "with-body-on-bodyless-method");
            }
        }
        _ => {
            // without-body constructor
            if needs && framing_hdr {
                // without-body constructor, but a framing header announces a body: not decided
                return (Validity::DontCare, "without-body-but-framing-header");
            }
            if needs {
                return (Validity::Invalid, "body-method-without-body");
            }
            if framing_hdr {
                return (Validity::Invalid, "body-on-bodyless-method");
            }
        }
    }
    (Validity::Valid, "valid")
}
