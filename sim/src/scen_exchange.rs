//! Scenario family `exchange`: C01 (schedule independence + conservation + bounded liveness),
//! C06 (response framing decision), C10 (connection-reuse verdict), C11 (Expect: 100-continue
//! handshake as a real race between the simulated timer and the simulated peer).

use ureq_proto::client::flow::state as fs;
use ureq_proto::client::flow::Flow;
use ureq_proto::BodyMode;

use crate::ctx::{lib, set_observed, Ctx, R};
use crate::drive::body_bytes;
use crate::gen::{gen_arrival, gen_coding, gen_field, gen_reason, gen_status, Field, RespHead};
use crate::json::show_bytes;
use crate::refs::{dechunk_strict, parse_request_head, ref_framing, ClClass, Framing as RF, TeClass, METHODS};
use crate::reqgen::{compare_head, expected_head, gen_valid_req, ReqCfg};
use crate::world::{AwaitPolicy, Exchange, FixedStream, Obs, Policy, RespObs, ServerMsg, ServerPlan, Terminal, Trigger};
use crate::{ensure, fail};

pub fn make_prepare(cfg: &ReqCfg) -> Result<Flow<(), fs::Prepare>, String> {
    let req = cfg.build();
    let mut f = lib("Flow::new", || Flow::new(req)).map_err(|e| e.to_string())?;
    for (n, v) in &cfg.added {
        lib("Flow<Prepare>::header", || f.header(n.as_str(), v.as_slice())).map_err(|e| e.to_string())?;
    }
    if cfg.despite {
        lib("Flow<Prepare>::send_body_despite_method", || f.send_body_despite_method());
    }
    Ok(f)
}

pub fn gen_req_body(ctx: &mut Ctx, cfg: &ReqCfg, small_only: bool) -> Vec<u8> {
    if !cfg.body_due() {
        return Vec::new();
    }
    let seed = ctx.draw(1 << 32);
    let n = match cfg.sized() {
        Some(n) => n as usize,
        None => {
            if small_only {
                ctx.range(0, 64)
            } else {
                match ctx.draw(20) {
                    0 => ctx.range(10_230, 10_250) * ctx.range(1, 2) + ctx.range(0, 8),
                    1 => ctx.range(1000, 30_000),
                    _ => ctx.range(0, 64),
                }
            }
        }
    };
    body_bytes(seed, 0, n)
}

// ------------------------------------------------------------------------------ response plans

#[derive(Clone, Debug)]
pub struct RespPlan {
    pub head: RespHead,
    pub head_bytes: Vec<u8>,
    pub line_ends: Vec<usize>,
    pub truth: RF,
    pub body_wire: Vec<u8>,
    pub payload: Vec<u8>,
    /// the body on the wire is only a prefix of what the head announces
    pub body_incomplete: bool,
    pub conn_close: bool,
}

impl RespPlan {
    pub fn bytes(&self) -> Vec<u8> {
        let mut b = self.head_bytes.clone();
        b.extend_from_slice(&self.body_wire);
        b
    }
    pub fn len(&self) -> usize {
        self.head_bytes.len() + self.body_wire.len()
    }
    /// [loc_end, head_end) where arrival cuts are not placed (owned by C05)
    pub fn protected(&self) -> Option<(usize, usize)> {
        if !(300..400).contains(&self.head.status) {
            return None;
        }
        self.head.fields.iter().position(|f| f.lname() == "location").map(|i| (self.line_ends[i + 1], self.head_bytes.len()))
    }
    pub fn expect_terminal(&self) -> &'static str {
        if (300..400).contains(&self.head.status) && self.head.status != 304 {
            "Redirect"
        } else {
            "Cleanup"
        }
    }
}

#[derive(Clone, Debug)]
pub enum ClSpec {
    Absent,
    Num(u64),
    /// a number written with this many leading zeros (still 1*DIGIT)
    Padded(u64, usize),
    Raw(&'static str),
}

pub fn cl_class(c: &ClSpec) -> ClClass {
    match c {
        ClSpec::Absent => ClClass::Absent,
        ClSpec::Num(n) => ClClass::Num(*n),
        ClSpec::Padded(n, _) => ClClass::Num(*n),
        ClSpec::Raw(s) => {
            if *s == "+5" {
                ClClass::Plus
            } else if !s.is_empty() && s.bytes().all(|b| b.is_ascii_digit()) {
                match s.parse::<u64>() {
                    Ok(n) => ClClass::Num(n),
                    Err(_) => ClClass::Bad,
                }
            } else {
                ClClass::Bad
            }
        }
    }
}

pub fn te_class(t: Option<&str>) -> TeClass {
    match t {
        None => TeClass::Absent,
        Some(s) => {
            let parts: Vec<String> = s.split(',').map(|p| p.trim().to_ascii_lowercase()).collect();
            if parts.last().map(|p| p == "chunked").unwrap_or(false) {
                TeClass::Chunked
            } else if parts.iter().any(|p| p == "chunked") {
                TeClass::ChunkedNotLast
            } else {
                TeClass::Other
            }
        }
    }
}

pub struct RespSpec {
    pub status: u16,
    pub http11: bool,
    pub cl: ClSpec,
    pub te: Option<&'static str>,
    /// Connection field values, in order
    pub conn: Vec<&'static str>,
    pub generic_fields: usize,
    /// Location field values in wire order (the last one counts)
    pub location: Vec<String>,
    /// raw Location values that are not valid UTF-8 / arbitrary bytes (appended after `location`)
    pub location_raw: Vec<Vec<u8>>,
    /// length of a close-delimited body
    pub close_len: usize,
}

/// Build the server's message for a spec; the body that is really sent follows the reference
/// framing (a well-behaved server).
pub fn build_resp(ctx: &mut Ctx, method: &str, s: &RespSpec) -> RespPlan {
    let mut fields: Vec<Field> = (0..s.generic_fields).map(|_| gen_field(ctx)).collect();
    let mut special: Vec<Field> = Vec::new();
    match &s.cl {
        ClSpec::Absent => {}
        ClSpec::Num(n) => special.push(Field::plain(if ctx.flip() { "Content-Length" } else { "content-length" }, &n.to_string())),
        ClSpec::Padded(n, z) => special.push(Field::plain("Content-Length", &format!("{}{}", "0".repeat(*z), n))),
        ClSpec::Raw(r) => special.push(Field::plain("Content-Length", r)),
    }
    if let Some(te) = s.te {
        special.push(Field::plain(if ctx.flip() { "Transfer-Encoding" } else { "transfer-encoding" }, te));
    }
    for c in &s.conn {
        special.push(Field::plain(if ctx.flip() { "Connection" } else { "connection" }, c));
    }
    for f in special {
        let at = ctx.range(0, fields.len());
        fields.insert(at, f);
    }
    // Location fields keep their relative order
    let mut from = 0usize;
    for l in s.location.iter().map(|l| l.as_bytes().to_vec()).chain(s.location_raw.iter().cloned()) {
        let at = ctx.range(from, fields.len());
        let name = if ctx.chance(1, 4) { "location" } else { "Location" };
        fields.insert(at, Field { name: name.to_string(), ows_before: b" ".to_vec(), value: l, ows_after: Vec::new() });
        from = at + 1;
    }
    let head = RespHead { http11: s.http11, status: s.status, reason: gen_reason(ctx), fields };
    let rd = head.render();
    let truth = ref_framing(method, s.status, s.http11, cl_class(&s.cl), te_class(s.te));
    let seed = ctx.draw(1 << 32);
    let (body_wire, payload, incomplete) = match truth {
        RF::Chunked => {
            let c = gen_coding(ctx);
            (c.bytes, c.payload, false)
        }
        RF::Length(n) => {
            if n <= 70_000 {
                let b = body_bytes(seed, 0, n as usize);
                (b.clone(), b, false)
            } else {
                let b = body_bytes(seed, 0, ctx.range(0, 50));
                (b.clone(), b, true)
            }
        }
        RF::Close => {
            // any bytes are a legal close-delimited body - also bytes that look like a chunked coding
            let b = if ctx.chance(1, 4) { gen_coding(ctx).bytes } else { body_bytes(seed, 0, s.close_len) };
            (b.clone(), b, false)
        }
        _ => (Vec::new(), Vec::new(), false),
    };
    RespPlan { head, head_bytes: rd.bytes, line_ends: rd.line_ends, truth, body_wire, payload, body_incomplete: incomplete, conn_close: s.conn.iter().any(|c| *c == "close") }
}

pub fn continue_100(ctx: &mut Ctx) -> Vec<u8> {
    let reason: &[u8] = match ctx.draw(5) {
        0 => b"",
        1 => b"Go Ahead And Send The Body Now Please",
        2 => &[b'C', 0xe9],
        _ => b"Continue",
    };
    let mut v = if ctx.chance(1, 5) { b"HTTP/1.0 100 ".to_vec() } else { b"HTTP/1.1 100 ".to_vec() };
    v.extend_from_slice(reason);
    v.extend_from_slice(b"\r\n\r\n");
    v
}

/// An interim (informational) response head other than 100: 102 Processing, 103 Early Hints and
/// unassigned 1xx codes. It carries no Connection field; it may carry fields that would matter on
/// a final response (a Content-Length, a Location) and must not matter here.
pub fn interim_1xx(ctx: &mut Ctx, location: Option<&str>) -> Vec<u8> {
    let status = *ctx.pick(&[103u16, 102, 103, 110, 150, 199]);
    let mut fields: Vec<Field> = Vec::new();
    if ctx.flip() {
        fields.push(Field::plain("Link", "</style.css>; rel=preload; as=style"));
    }
    for _ in 0..ctx.range(0, 2) {
        fields.push(gen_field(ctx));
    }
    if ctx.chance(1, 4) {
        fields.push(Field::plain("Content-Length", *ctx.pick(&["7", "0", "31"])));
    }
    if let Some(l) = location {
        fields.push(Field::plain("Location", l));
    }
    let reason: &[u8] = match status {
        102 => b"Processing",
        103 => b"Early Hints",
        _ => b"",
    };
    RespHead { http11: true, status, reason: reason.to_vec(), fields }.render().bytes
}

/// Compare an observed response with the ground-truth head.
pub fn check_resp_obs(o: &RespObs, h: &RespHead) -> Result<(), String> {
    if o.status != h.status {
        return Err(format!("status {} != {}", o.status, h.status));
    }
    if o.http11 != h.http11 {
        return Err(format!("version 1.{} != 1.{}", o.http11 as u8, h.http11 as u8));
    }
    if o.fields.len() != h.fields.len() {
        return Err(format!("{} fields returned, head has {}", o.fields.len(), h.fields.len()));
    }
    let mut seen: Vec<String> = Vec::new();
    for f in &h.fields {
        let ln = f.lname();
        if seen.contains(&ln) {
            continue;
        }
        seen.push(ln.clone());
        let want = h.get_all(&ln);
        let got: Vec<&[u8]> = o.fields.iter().filter(|(n, _)| *n == ln).map(|(_, v)| v.as_slice()).collect();
        if want != got {
            return Err(format!("field {:?}: values differ", ln));
        }
    }
    Ok(())
}

/// Close conditions that are true in this exchange (RefClose), from ground truth + the one
/// observed history fact (did the flow take the Await100 -> RecvResponse edge).
pub fn ref_close(cfg: &ReqCfg, plan: &RespPlan, refused_edge: bool) -> Vec<&'static str> {
    let mut v = Vec::new();
    if cfg.version == 10 {
        v.push("http10");
    }
    if cfg.orig.iter().any(|(n, val)| n.eq_ignore_ascii_case("connection") && val == b"close") {
        v.push("client-close");
    }
    if plan.conn_close {
        v.push("server-close");
    }
    if refused_edge {
        v.push("not-100");
    }
    if plan.truth == RF::Close {
        v.push("close-delimited");
    }
    v
}

/// Map the reason text to a close condition by keyword. Only an unambiguous wording (exactly one
/// keyword class matches) is judged; anything else counts as unverifiable.
pub fn reason_class(r: &str) -> Option<&'static str> {
    let l = r.to_ascii_lowercase();
    let classes: [(&str, bool); 5] = [
        ("http10", l.contains("1.0")),
        ("client-close", l.contains("client")),
        ("server-close", l.contains("server")),
        ("not-100", l.contains("100")),
        ("close-delimited", l.contains("delimited")),
    ];
    let hits: Vec<&str> = classes.iter().filter(|c| c.1).map(|c| c.0).collect();
    if hits.len() == 1 {
        Some(hits[0])
    } else {
        None
    }
}

/// The request body as the server decodes it from the wire.
pub fn decode_req_body(head: &[u8], body_wire: &[u8]) -> Result<Vec<u8>, String> {
    let p = parse_request_head(head)?.ok_or("incomplete head")?;
    let te = p.fields.iter().any(|(n, v)| n == "transfer-encoding" && v.eq_ignore_ascii_case(b"chunked"));
    if te {
        let d = dechunk_strict(body_wire)?;
        if d.terminators != 1 {
            return Err(format!("chunked request body has {} terminators", d.terminators));
        }
        Ok(d.data)
    } else {
        Ok(body_wire.to_vec())
    }
}

fn remove_protected(arr: &mut Vec<usize>, zones: &[(usize, usize)]) {
    arr.retain(|p| !zones.iter().any(|(a, b)| *p >= *a && *p < *b));
}

// ============================================================================================ C01

struct ExPlan {
    cfg: ReqCfg,
    body: Vec<u8>,
    interim: Option<Vec<u8>>,
    plan: RespPlan,
    policy_await: AwaitPolicy,
}

fn gen_c01_resp(ctx: &mut Ctx, method: &str, last: bool) -> RespPlan {
    loop {
        let status = gen_status(ctx);
        let kind = ctx.draw(if last { 5 } else { 4 });
        // a chunked coding on an HTTP/1.0 response is not effective (then Content-Length / close)
        let http11 = (kind == 2 && ctx.chance(7, 8)) || ctx.chance(3, 4);
        let (cl, te) = match kind {
            0 => (ClSpec::Absent, None),
            1 | 3 => (
                ClSpec::Num(match ctx.draw(6) {
                    0 => 0,
                    1 => ctx.range(1, 3) as u64,
                    2 => ctx.range(1, 3000) as u64,
                    3 => ctx.range(10_230, 10_250) as u64,
                    _ => ctx.range(1, 64) as u64,
                }),
                None,
            ),
            2 => (ClSpec::Absent, Some(*ctx.pick(&["chunked", "Chunked", "gzip, chunked"]))),
            _ => (ClSpec::Absent, None),
        };
        let conn: Vec<&'static str> = match ctx.draw(8) {
            0 => vec!["close"],
            1 => vec!["keep-alive"],
            2 => vec!["keep-alive", "close"],
            _ => vec![],
        };
        // a Location header is not reserved for redirects (201 Created carries one too)
        let location = if ((300..400).contains(&status) && ctx.chance(3, 4)) || ctx.chance(1, 8) { vec!["/next?x=1".to_string()] } else { vec![] };
        let spec = RespSpec { status, http11, cl, te, conn, generic_fields: if ctx.chance(1, 10) { ctx.range(0, 40) } else { ctx.range(0, 5) }, location, location_raw: vec![], close_len: if ctx.chance(1, 8) { ctx.range(0, 20_000) } else { ctx.range(0, 200) } };
        let plan = build_resp(ctx, method, &spec);
        match plan.truth {
            RF::DontCare | RF::Error => continue,
            RF::Close if !last => continue,
            _ => return plan,
        }
    }
}

pub fn c01(ctx: &mut Ctx) -> R {
    set_observed(false);
    let truncated = ctx.sub == 3;
    let n_ex = if truncated { 1 } else { ctx.range(1, 3) };
    // ---- configurations
    let mut plans: Vec<ExPlan> = Vec::new();
    for i in 0..n_ex {
        let cfg = gen_valid_req(ctx, true, true);
        let body = gen_req_body(ctx, &cfg, false);
        let mut plan = gen_c01_resp(ctx, &cfg.method, i + 1 == n_ex);
        if truncated {
            while (300..400).contains(&plan.head.status) {
                plan = gen_c01_resp(ctx, &cfg.method, true);
            }
        }
        let interim = if cfg.expect && ctx.flip() { Some(continue_100(ctx)) } else { None };
        let policy_await = if ctx.flip() { AwaitPolicy::WaitDecision } else { AwaitPolicy::GiveUpAtOnce };
        // waiting for a decision needs one in the stream
        let policy_await = if cfg.expect && cfg.body_due() { policy_await } else { AwaitPolicy::GiveUpAtOnce };
        plans.push(ExPlan { cfg, body, interim, plan, policy_await });
    }
    // ---- the fixed server byte stream for all exchanges
    let mut stream: Vec<u8> = Vec::new();
    let mut starts: Vec<usize> = Vec::new();
    let mut zones: Vec<(usize, usize)> = Vec::new();
    let mut marks: Vec<usize> = Vec::new();
    for p in &plans {
        starts.push(stream.len());
        if let Some(i) = &p.interim {
            stream.extend_from_slice(i);
            marks.push(stream.len());
        }
        let hs = stream.len();
        if let Some((a, b)) = p.plan.protected() {
            zones.push((hs + a, hs + b));
        }
        for e in &p.plan.line_ends {
            marks.push(hs + e);
        }
        stream.extend_from_slice(&p.plan.head_bytes);
        marks.push(stream.len());
        stream.extend_from_slice(&p.plan.body_wire);
        marks.push(stream.len());
    }
    let full_len = stream.len();
    let last_close = plans.last().unwrap().plan.truth == RF::Close;
    let mut cut_at = full_len;
    if truncated {
        // the peer closes inside the (only) final message
        let p = &plans[0];
        let msg_start = starts[0] + p.interim.as_ref().map(|i| i.len()).unwrap_or(0);
        let need_all = matches!(p.plan.truth, RF::Close);
        if p.plan.len() == 0 || need_all {
            cut_at = msg_start + ctx.range(0, p.plan.head_bytes.len().saturating_sub(1));
        } else {
            cut_at = msg_start + ctx.range(0, p.plan.len() - 1);
        }
        stream.truncate(cut_at);
        ctx.count("f:conn_close_mid_message");
    }
    let (mut arrivals, amode) = gen_arrival(ctx, stream.len(), &marks, 300);
    remove_protected(&mut arrivals, &zones);
    if arrivals.last() != Some(&stream.len()) {
        arrivals.push(stream.len());
    }
    match amode {
        crate::gen::ArrMode::Trickle => ctx.count("f:seg_trickle"),
        crate::gen::ArrMode::Structural => ctx.count("f:seg_cut_structural"),
        crate::gen::ArrMode::OneShot => {}
        _ => ctx.count("f:seg_cut_random"),
    }
    ctx.sample(|| format!("{} exchange(s){}: {} ; server stream {} bytes, arrival {:?} ({} cuts)", n_ex, if truncated { " (peer closes mid-message)" } else { "" }, plans.iter().map(|p| format!("[{} body={} await={:?} interim100={} -> {} {:?} {} bytes]", p.cfg.summary(), p.body.len(), p.policy_await, p.interim.is_some(), p.plan.head.status, p.plan.truth, p.plan.len())).collect::<Vec<_>>().join(" "), stream.len(), amode, arrivals.len()));

    set_observed(true);
    let mut offset = 0usize;
    let mut total_calls = 0usize;
    for (i, p) in plans.iter().enumerate() {
        let start = match make_prepare(&p.cfg) {
            Ok(f) => f,
            Err(e) => fail!("FOREIGN", "", "cannot build flow: {}", e),
        };
        let twin = match make_prepare(&p.cfg) {
            Ok(f) => f,
            Err(e) => fail!("FOREIGN", "", "cannot build flow: {}", e),
        };
        let last = i + 1 == n_ex;
        let close_after = (last && last_close) || truncated;
        let policy = Policy::draw(ctx, p.policy_await);
        let ex = Exchange {
            prop: "C01",
            body: &p.body,
            policy,
            server: ServerPlan { msgs: vec![], close_after },
            fixed_stream: Some(FixedStream { stream: &stream, consumed: offset, visible: offset, arrivals: arrivals.clone() }),
        };
        let obs = ex.run(ctx, start)?;
        total_calls += obs.calls;
        ctx.sig3(obs.edges.len() as u64, obs.calls.min(200) as u64, obs.overflow_retries.min(7) as u64);
        ctx.sig(obs.schedule_sig());
        for e in &obs.edges {
            ctx.sig3(e.0.len() as u64, e.1.len() as u64, 0);
        }
        // ---- canonical twin on the same configuration (no draws)
        let exc = Exchange {
            prop: "C01",
            body: &p.body,
            policy: Policy::canonical(p.policy_await),
            server: ServerPlan { msgs: vec![], close_after },
            fixed_stream: Some(FixedStream { stream: &stream, consumed: starts[i], visible: starts[i], arrivals: vec![] }),
        };
        let can = exc.run(ctx, twin)?;

        if truncated {
            // the exchange must not complete
            match &obs.terminal {
                Terminal::Redirect(_) | Terminal::Cleanup(_) => {
                    fail!("C01.completed_truncated", "", "the server stream was cut at {} of {} bytes (inside the response) but the exchange completed in {}", cut_at, full_len, obs.terminal.name());
                }
                _ => {}
            }
            ctx.count("p:truncated_not_completed");
            ctx.nontrivial = true;
            return Ok(());
        }
        // ---- (d) bounded liveness
        match &obs.terminal {
            Terminal::Stuck(s) => fail!("C01.no_bounded_progress", s, "all {} server bytes were delivered and buffers grew, but the exchange is stuck in {} after {} calls (path {})", stream.len(), s, obs.calls, obs.state_path()),
            Terminal::Error(s, e) => fail!("C01.unexpected_error", s, "exchange {} failed in {}: {} (path {})", i, s, e, obs.state_path()),
            _ => {}
        }
        // ---- (a) reference
        c01_reference(ctx, p, &obs, "scheduled")?;
        c01_reference(ctx, p, &can, "canonical")?;
        // ---- (b) metamorphic: identical to the canonical schedule
        if obs.head() != can.head() {
            fail!("C01.head_differs", "", "request head differs from the canonical schedule: {:?} vs {:?}", show_bytes(obs.head()), show_bytes(can.head()));
        }
        let b1 = decode_req_body(obs.head(), obs.body_wire());
        let b2 = decode_req_body(can.head(), can.body_wire());
        if b1 != b2 {
            fail!("C01.request_body_differs", "", "request payload differs from the canonical schedule");
        }
        ensure!(obs.responses == can.responses, "C01.response_differs", "response head differs from the canonical schedule");
        ensure!(obs.resp_body == can.resp_body, "C01.response_body_differs", "response body differs from the canonical schedule ({} vs {} bytes)", obs.resp_body.len(), can.resp_body.len());
        ensure!(obs.terminal.name() == can.terminal.name(), "C01.terminal_differs", "terminal state {} vs canonical {}", obs.terminal.name(), can.terminal.name());
        ensure!(obs.must_close == can.must_close, "C01.verdict_differs", "reuse verdict {:?} vs canonical {:?}", obs.must_close, can.must_close);
        ensure!(obs.consumed == can.consumed, "C01.consumed_differs", "server bytes consumed {} vs canonical {}", obs.consumed, can.consumed);
        // ---- (c) conservation
        let want = p.interim.as_ref().map(|i| i.len()).unwrap_or(0) + p.plan.len();
        if obs.consumed != want {
            fail!("C01.wrong_consumed", "", "exchange {} consumed {} server bytes, its message(s) are {} bytes long (path {})", i, obs.consumed, want, obs.state_path());
        }
        offset += obs.consumed;
        if obs.must_close == Some(true) {
            if !last {
                ctx.count("p:stopped_by_must_close");
            }
            break;
        }
        if !last {
            ctx.count("f:pool_reuse");
        }
    }
    ctx.nontrivial = total_calls >= 8;
    Ok(())
}

fn c01_reference(ctx: &mut Ctx, p: &ExPlan, obs: &Obs, which: &str) -> R {
    let _ = ctx;
    // request head
    let parsed = match parse_request_head(obs.head()) {
        Ok(Some(h)) => h,
        Ok(None) => fail!("C01.head_malformed", which, "[{}] request head incomplete: {:?}", which, show_bytes(obs.head())),
        Err(e) => fail!("C01.head_malformed", which, "[{}] request head malformed: {}", which, e),
    };
    ensure!(parsed.len == obs.head_len, "C01.head_malformed", "[{}] head length", which);
    if let Err(e) = compare_head(&parsed, &expected_head(&p.cfg, &[])) {
        fail!("C01.head_wrong", which, "[{}] {}", which, e);
    }
    // request payload
    let refused = obs.refused_edge;
    if p.cfg.body_due() && !refused {
        match decode_req_body(obs.head(), obs.body_wire()) {
            Ok(b) => ensure!(b == p.body, "C01.request_body_wrong", "[{}] request payload on the wire differs from the body source ({} vs {} bytes)", which, b.len(), p.body.len()),
            Err(e) => fail!("C01.request_body_wrong", "decode", "[{}] request body on the wire: {}", which, e),
        }
    } else {
        ensure!(obs.body_wire().is_empty(), "C01.request_body_wrong", "[{}] {} bytes after the head although no body was to be sent", which, obs.body_wire().len());
    }
    // response head(s)
    ensure!(obs.responses.len() == 1, "C01.response_count", "[{}] {} responses returned for one final response (statuses {:?})", which, obs.responses.len(), obs.responses.iter().map(|r| r.status).collect::<Vec<_>>());
    if let Err(e) = check_resp_obs(&obs.responses[0], &p.plan.head) {
        fail!("C01.response_wrong", which, "[{}] {}", which, e);
    }
    ensure!(obs.resp_body == p.plan.payload, "C01.response_body_wrong", "[{}] response body differs from what the server sent ({} vs {} bytes)", which, obs.resp_body.len(), p.plan.payload.len());
    // terminal state and verdict
    ensure!(obs.terminal.name() == p.plan.expect_terminal(), "C01.terminal_wrong", "[{}] terminal state {} for status {}", which, obs.terminal.name(), p.plan.head.status);
    let rc = ref_close(&p.cfg, &p.plan, refused);
    ensure!(obs.must_close == Some(!rc.is_empty()), "C01.verdict_wrong", "[{}] must_close = {:?}, true close conditions: {:?}", which, obs.must_close, rc);
    Ok(())
}

// ============================================================================================ C06

pub const C06_CELLS: u32 = 9 * 9 * 2 * 6 * 5;

const CL_BAD: [&str; 6] = ["abc", "", "5x", "-1", "1.0", "18446744073709551616"];

pub fn c06(ctx: &mut Ctx) -> R {
    set_observed(false);
    // ---- the run index enumerates the coarse cells round-robin
    let mut k = (ctx.index % C06_CELLS as u64) as u32;
    let cell = k;
    let mi = (k % 9) as usize;
    k /= 9;
    let sc = k % 9;
    k /= 9;
    let http11 = k % 2 == 1;
    k /= 2;
    let clc = k % 6;
    k /= 6;
    let tec = k % 5;
    let method = METHODS[mi];
    let status: u16 = match sc {
        0 => ctx.range(101, 199) as u16,
        1 => 200,
        2 => 204,
        3 => *ctx.pick(&[201u16, 202, 203, 205, 206, 226, 299]),
        4 => loop {
            let s = ctx.range(300, 399) as u16;
            if s != 304 {
                break s;
            }
        },
        5 => 304,
        6 => ctx.range(400, 499) as u16,
        7 => ctx.range(500, 599) as u16,
        _ => ctx.range(600, 999) as u16,
    };
    let extra_dontcare = ctx.chance(1, 50);
    let cl = match clc {
        0 => ClSpec::Absent,
        1 => if ctx.chance(1, 6) { ClSpec::Padded(0, ctx.range(1, 25)) } else { ClSpec::Num(0) },
        2 => {
            let n = if ctx.chance(1, 6) { ctx.range(1, 20_000) as u64 } else { ctx.range(1, 100) as u64 };
            if ctx.chance(1, 5) {
                ClSpec::Padded(n, ctx.range(1, 30))
            } else {
                ClSpec::Num(n)
            }
        }
        3 => ClSpec::Num(u64::MAX),
        4 => ClSpec::Raw("18446744073709551616"),
        _ => ClSpec::Raw(if extra_dontcare { "+5" } else { *ctx.pick(&CL_BAD) }),
    };
    let te: Option<&'static str> = match tec {
        0 => None,
        1 => Some("chunked"),
        2 => Some(*ctx.pick(&["Chunked", "CHUNKED", "cHuNkEd"])),
        3 => Some(if extra_dontcare { "chunked, gzip" } else { *ctx.pick(&["gzip, chunked", "gzip,chunked", "deflate , gzip ,  chunked", "gzip,\tchunked", "gzip \t, \tChunked"]) }),
        _ => Some(*ctx.pick(&["gzip", "identity", "deflate, gzip", "chunke", "chunkedx", "chunked-x", "xchunked", "gzip,", "gzip, , deflate", ",gzip", "c"])),
    };
    // request: valid for the method (HTTP/1.1 so that every method is allowed)
    let mut cfg = gen_valid_req(ctx, false, true);
    cfg.method = method.to_string();
    cfg.version = 11;
    cfg.despite = false;
    cfg.expect = false;
    cfg.orig.retain(|(n, _)| n != "content-length" && n != "transfer-encoding" && n != "expect");
    cfg.added.retain(|(n, _)| n != "content-length" && n != "transfer-encoding");
    cfg.framing = crate::reqgen::Framing::None;
    let body = gen_req_body(ctx, &cfg, true);
    let spec = RespSpec { status, http11, cl, te, conn: vec![], generic_fields: ctx.range(0, 3), location: if ((300..400).contains(&status) && ctx.flip()) || ctx.chance(1, 8) { vec!["/n".into()] } else { vec![] }, location_raw: vec![], close_len: ctx.range(0, 300) };
    let plan = build_resp(ctx, method, &spec);
    let one_shot = ctx.chance(3, 4);
    let mut tail = Vec::new();
    if plan.truth != RF::Close && !plan.body_incomplete {
        tail.extend_from_slice(b"HTTP/1.1 200 OK\r\nContent-Length: 0\r\n\r\n");
    }
    // history: an interim 1xx head (102 / 103 / ...) may precede the final one; an interim-aware
    // caller polls past it, and the framing is that of the final head
    let interim = if status >= 200 && ctx.chance(1, 6) { interim_1xx(ctx, None) } else { Vec::new() };
    let hs = interim.len();
    let mut stream = interim;
    stream.extend_from_slice(&plan.bytes());
    let msg_len = stream.len();
    stream.extend_from_slice(&tail);
    let mut arrivals = if one_shot {
        vec![stream.len()]
    } else {
        let mut marks: Vec<usize> = plan.line_ends.iter().map(|e| hs + e).collect();
        marks.push(hs);
        marks.push(hs + plan.head_bytes.len());
        marks.push(msg_len);
        gen_arrival(ctx, stream.len(), &marks, 200).0
    };
    if let Some((a, b)) = plan.protected() {
        remove_protected(&mut arrivals, &[(hs + a, hs + b)]);
    }
    if arrivals.last() != Some(&stream.len()) {
        arrivals.push(stream.len());
    }
    ctx.sample(|| format!("cell {}: {} -> HTTP/1.{} {} CL={:?} TE={:?} => reference framing {:?}; {}", cell, method, http11 as u8, status, spec.cl, spec.te, plan.truth, if one_shot { "one-shot I/O" } else { "sliced I/O" }));
    ctx.cell(cell);
    let start = match make_prepare(&cfg) {
        Ok(f) => f,
        Err(e) => fail!("FOREIGN", "", "cannot build flow: {}", e),
    };
    set_observed(true);
    let mut policy = if one_shot { Policy::canonical(AwaitPolicy::GiveUpAtOnce) } else { Policy::draw(ctx, AwaitPolicy::GiveUpAtOnce) };
    policy.skip_interim = hs > 0;
    if hs > 0 {
        ctx.count("f:interim_1xx_before_final_head");
    }
    let ex = Exchange { prop: "C06", body: &body, policy, server: ServerPlan { msgs: vec![], close_after: plan.truth == RF::Close }, fixed_stream: Some(FixedStream { stream: &stream, consumed: 0, visible: 0, arrivals }) };
    let obs = ex.run(ctx, start)?;
    ctx.sig3(cell as u64, obs.edges.len() as u64, obs.terminal.name().len() as u64);
    ctx.sig(obs.schedule_sig());
    ctx.nontrivial = true;
    let entered_body = obs.edges.iter().any(|e| e.1 == "RecvBody");
    let key = format!("{:?}", plan.truth);
    let key = key.split('(').next().unwrap_or("");
    match plan.truth {
        RF::DontCare => {
            ctx.count("p:dont_care_cell");
            return Ok(());
        }
        RF::Error => {
            match &obs.terminal {
                Terminal::Error("RecvResponse", _) => {
                    ctx.count("p:bad_content_length_rejected");
                }
                Terminal::Stuck("RecvResponse") if hs > 0 && obs.responses.len() < 2 => {
                    // polling past the delivered interim head was refused: the bad head was never looked at
                    ctx.count("p:interim_poll_refused");
                }
                other => fail!("C06.bad_length_accepted", "", "Content-Length {:?} is not a number but the head was accepted (ended in {} via {})", spec.cl, other.name(), obs.state_path()),
            }
            return Ok(());
        }
        _ => {}
    }
    if hs > 0 && obs.responses.len() < 2 && !matches!(obs.terminal, Terminal::Redirect(_) | Terminal::Cleanup(_)) {
        // the flow would not hand out a second head after the interim one (it failed or stayed
        // silent): the statement does not say that polling past a delivered head must work
        ctx.count("p:interim_poll_refused");
        return Ok(());
    }
    if let Terminal::Error(s, e) = &obs.terminal {
        fail!("C06.unexpected_error", s, "{} -> {} {} CL={:?} TE={:?}: failed in {}: {}", method, status, if http11 { "1.1" } else { "1.0" }, spec.cl, spec.te, s, e);
    }
    let non_empty_body_expected = match plan.truth {
        RF::Chunked | RF::Close => true,
        RF::Length(n) => n > 0,
        _ => false,
    };
    if entered_body != non_empty_body_expected {
        fail!("C06.wrong_successor", key, "{} -> HTTP/1.{} {} CL={:?} TE={:?}: reference framing {:?} but the flow {} the body state (path {})", method, http11 as u8, status, spec.cl, spec.te, plan.truth, if entered_body { "entered" } else { "did not enter" }, obs.state_path());
    }
    if entered_body {
        let bm = obs.body_mode;
        let ok = match (plan.truth, bm) {
            (RF::Chunked, Some(BodyMode::Chunked)) => true,
            (RF::Close, Some(BodyMode::CloseDelimited)) => true,
            (RF::Length(n), Some(BodyMode::LengthDelimited(m))) => n == m,
            _ => false,
        };
        if !ok {
            fail!("C06.wrong_body_mode", key, "{} -> HTTP/1.{} {} CL={:?} TE={:?}: reference framing {:?} but body_mode() = {:?}", method, http11 as u8, status, spec.cl, spec.te, plan.truth, bm);
        }
    }
    if plan.body_incomplete {
        // announced length beyond what any server sends here: the exchange cannot finish
        match &obs.terminal {
            Terminal::Stuck("RecvBody") => {}
            other => fail!("C06.huge_length_completed", "", "Content-Length {:?} with {} body bytes sent ended in {}", spec.cl, plan.body_wire.len(), other.name()),
        }
        ensure!(obs.resp_body == plan.payload, "C06.wrong_body", "body bytes differ");
        return Ok(());
    }
    match &obs.terminal {
        Terminal::Stuck(s) => fail!("C06.no_bounded_progress", s, "{} -> {}: stuck in {} (path {})", method, status, s, obs.state_path()),
        _ => {}
    }
    ensure!(obs.terminal.name() == plan.expect_terminal(), "C06.wrong_terminal", "status {} ended in {} (path {})", status, obs.terminal.name(), obs.state_path());
    ensure!(obs.resp_body == plan.payload, "C06.wrong_body", "{} body bytes delivered, the server sent {} (framing {:?})", obs.resp_body.len(), plan.payload.len(), plan.truth);
    ensure!(obs.consumed == msg_len, "C06.wrong_consumed", "consumed {} of a {}-byte message (framing {:?})", obs.consumed, msg_len, plan.truth);
    // single-call API: into_body is None exactly for no-body framings
    if ctx.chance(1, 4) {
        use ureq_proto::client::call::Call;
        let req = crate::drive::build_request(method, 11, "http://a.test/", &[]);
        let mut buf = vec![0u8; 1024];
        let recv = if crate::refs::method_needs_body(method) {
            let mut c = match lib("Call::with_body", || Call::with_body(req)) {
                Ok(c) => c,
                Err(_) => return Ok(()),
            };
            let _ = lib("Call<WithBody>::write", || c.write(&[], &mut buf));
            let _ = lib("Call<WithBody>::write", || c.write(&[], &mut buf));
            lib("Call::into_receive", || c.into_receive())
        } else {
            let mut c = match lib("Call::without_body", || Call::without_body(req)) {
                Ok(c) => c,
                Err(_) => return Ok(()),
            };
            let _ = lib("Call<WithoutBody>::write", || c.write(&mut buf));
            lib("Call::into_receive", || c.into_receive())
        };
        if let Ok(mut rc) = recv {
            match lib("Call<RecvResponse>::try_response", || rc.try_response(&plan.head_bytes)) {
                Ok(Some(_)) => {
                    let ib = lib("Call<RecvResponse>::into_body", || rc.into_body());
                    match ib {
                        Ok(None) => ensure!(!non_empty_body_expected, "C06.call_into_body", "into_body() is None but reference framing is {:?}", plan.truth),
                        Ok(Some(_)) => ensure!(plan.truth != RF::NoBody, "C06.call_into_body", "into_body() is Some but the reference says no body ({} {})", method, status),
                        Err(e) => fail!("C06.call_into_body", "err", "into_body failed: {}", e),
                    }
                    ctx.count("p:call_api_checked");
                }
                other => fail!("C06.call_try_response", "", "Call::try_response on a complete head: {:?}", other.map(|o| o.map(|x| x.0))),
            }
        }
    }
    Ok(())
}

// ============================================================================================ C10

/// A connection whose message boundaries were lost is never offered for reuse: the peer stops
/// (or closes) inside a 3xx head after its Location line. If the flow nevertheless completes
/// (the crate's lenient handling of truncated redirects, known finding D6 of C05) the verdict
/// must be must-close, whatever Connection header the truncated head carried.
fn c10_lost_boundaries(ctx: &mut Ctx) -> R {
    set_observed(false);
    let mut cfg = gen_valid_req(ctx, false, true);
    cfg.orig.retain(|(n, _)| n != "connection");
    if ctx.chance(1, 3) {
        cfg.orig.push(("connection".into(), b"keep-alive".to_vec()));
    }
    cfg.version = 11;
    if !crate::refs::method_ok_for_version(&cfg.method, true) {
        cfg.method = "GET".into();
    }
    let body = gen_req_body(ctx, &cfg, true);
    let status = *ctx.pick(&[301u16, 302, 303, 307, 308, 300]);
    let mut fields: Vec<Field> = Vec::new();
    match ctx.draw(3) {
        0 => fields.push(Field::plain("Connection", "keep-alive")),
        1 => fields.push(Field::plain("connection", "Keep-Alive")),
        _ => {}
    }
    for _ in 0..ctx.range(0, 2) {
        fields.push(gen_field(ctx));
    }
    fields.push(Field::plain("Location", *ctx.pick(&["/next", "http://b.test/x", "../up"])));
    let after = ctx.range(0, 3);
    for i in 0..after {
        fields.push(if i == 0 && ctx.flip() { Field::plain("Content-Length", "0") } else { gen_field(ctx) });
    }
    let head = RespHead { http11: true, status, reason: b"Moved".to_vec(), fields };
    let rd = head.render();
    let loc_idx = head.fields.iter().position(|f| f.lname() == "location").unwrap();
    let loc_end = rd.line_ends[loc_idx + 1];
    let cut = ctx.range(loc_end, rd.bytes.len() - 1);
    let stream = rd.bytes[..cut].to_vec();
    let eof = ctx.flip();
    ctx.sample(|| format!("{} -> {} head of {} bytes cut at {} (Location line ends at {}), peer then {}", cfg.summary(), status, rd.bytes.len(), cut, loc_end, if eof { "closes" } else { "stalls" }));
    ctx.count("f:conn_close_mid_head_after_location");
    let start = match make_prepare(&cfg) {
        Ok(f) => f,
        Err(e) => fail!("FOREIGN", "", "cannot build flow: {}", e),
    };
    set_observed(true);
    let arrivals = gen_arrival(ctx, stream.len(), &[loc_end], 30).0;
    let ex = Exchange { prop: "C10", body: &body, policy: Policy::draw(ctx, AwaitPolicy::GiveUpAtOnce), server: ServerPlan { msgs: vec![], close_after: eof }, fixed_stream: Some(FixedStream { stream: &stream, consumed: 0, visible: 0, arrivals }) };
    let obs = ex.run(ctx, start)?;
    ctx.sig3(7777, obs.edges.len() as u64, obs.terminal.name().len() as u64);
    ctx.nontrivial = true;
    match &obs.terminal {
        Terminal::Redirect(_) | Terminal::Cleanup(_) => {
            ctx.count("p:completed_on_truncated_redirect");
            if obs.must_close != Some(true) {
                fail!("C10.reuse_after_lost_boundaries", "", "the {} head was cut at {} of {} bytes (after its Location line) and the flow completed in {}, but the connection is offered for reuse (reason {:?})", status, cut, rd.bytes.len(), obs.terminal.name(), obs.reason);
            }
            ensure!(obs.reason.is_some(), "C10.reason_mismatch", "must_close without a reason");
        }
        _ => ctx.count("p:stuck_on_truncated_redirect"),
    }
    Ok(())
}

pub fn c10(ctx: &mut Ctx) -> R {
    if ctx.sub == 3 {
        return c10_lost_boundaries(ctx);
    }
    set_observed(false);
    // ---- request with drawn close-relevant features
    let mut cfg = gen_valid_req(ctx, true, true);
    let all_five = ctx.chance(1, 12);
    if all_five {
        cfg.version = 10;
        cfg.method = "POST".to_string();
        cfg.despite = false;
        if !cfg.expect {
            cfg.expect = true;
            cfg.orig.push(("expect".into(), b"100-continue".to_vec()));
        }
    }
    cfg.orig.retain(|(n, _)| n != "connection");
    match if all_five { 0 } else { ctx.draw(6) } {
        0 => cfg.orig.push(("connection".into(), b"close".to_vec())),
        1 => cfg.orig.push(("connection".into(), b"keep-alive".to_vec())),
        2 => {
            cfg.orig.push(("connection".into(), b"keep-alive".to_vec()));
            cfg.orig.push(("Connection".into(), b"close".to_vec()));
        }
        _ => {}
    }
    let body = gen_req_body(ctx, &cfg, true);
    let handshake = cfg.expect && cfg.body_due();
    // ---- response
    let plan = loop {
        let status = if ctx.chance(1, 3) { *ctx.pick(&[301u16, 302, 303, 307, 308, 304]) } else { gen_status(ctx) };
        let kind = if all_five { 4 } else { ctx.draw(5) };
        let http11 = if all_five { ctx.flip() } else { (kind == 2 && ctx.chance(3, 4)) || ctx.chance(2, 3) };
        let (cl, te) = match kind {
            0 => (ClSpec::Absent, None),
            1 | 3 => (ClSpec::Num(ctx.range(0, 40) as u64), None),
            2 => (if ctx.chance(1, 6) { ClSpec::Num(ctx.range(1, 30) as u64) } else { ClSpec::Absent }, Some(*ctx.pick(&["chunked", "chunked", "gzip, chunked", "gzip,chunked", "Chunked"]))),
            _ => (ClSpec::Absent, None),
        };
        let conn: Vec<&'static str> = if all_five {
            vec!["close"]
        } else {
            match ctx.draw(6) {
                0 => vec!["close"],
                1 => vec!["keep-alive"],
                2 => vec!["keep-alive", "close"],
                3 => vec!["close", "close"],
                _ => vec![],
            }
        };
        let status = if all_five && (status < 200 || status == 204 || status == 304 || (300..400).contains(&status)) { 403 } else { status };
        let spec = RespSpec { status, http11, cl, te, conn, generic_fields: ctx.range(0, 3), location: if (300..400).contains(&status) && ctx.chance(3, 4) { vec!["/moved".into()] } else { vec![] }, location_raw: vec![], close_len: ctx.range(0, 100) };
        let p = build_resp(ctx, &cfg.method, &spec);
        if !matches!(p.truth, RF::DontCare | RF::Error) {
            break p;
        }
    };
    // ---- server stream: [100]? final, then a follow-up response for the pooled connection
    let interim = if handshake && !all_five && ctx.chance(1, 2) { Some(continue_100(ctx)) } else { None };
    let policy_await = if handshake {
        match ctx.draw(3) {
            0 => AwaitPolicy::WaitDecision,
            1 => AwaitPolicy::GiveUpAtOnce,
            _ => AwaitPolicy::Timer(*ctx.pick(&[0u64, 1_000, 1_000_000, 1_000_000_000])),
        }
    } else {
        AwaitPolicy::GiveUpAtOnce
    };
    let policy_await = if all_five { AwaitPolicy::WaitDecision } else { policy_await };
    let mut stream = Vec::new();
    if let Some(i) = &interim {
        stream.extend_from_slice(i);
    }
    // history: an interim 1xx head without a Connection field, polled past by an interim-aware
    // caller; the verdict is about the final response
    let early = !handshake && plan.head.status >= 200 && ctx.chance(1, 6);
    if early {
        let e = interim_1xx(ctx, None);
        stream.extend_from_slice(&e);
        ctx.count("f:interim_1xx_before_final_head");
    }
    let hs = stream.len();
    stream.extend_from_slice(&plan.bytes());
    let msg_end = stream.len();
    let follow = b"HTTP/1.1 200 OK\r\nContent-Length: 3\r\n\r\nabc";
    if plan.truth != RF::Close {
        stream.extend_from_slice(follow);
    }
    let mut marks: Vec<usize> = plan.line_ends.iter().map(|e| hs + e).collect();
    marks.push(hs);
    marks.push(msg_end);
    let (mut arrivals, _) = gen_arrival(ctx, stream.len(), &marks, 120);
    if let Some((a, b)) = plan.protected() {
        remove_protected(&mut arrivals, &[(hs + a, hs + b)]);
    }
    if arrivals.last() != Some(&stream.len()) {
        arrivals.push(stream.len());
    }
    ctx.sample(|| format!("{} body={} handshake={} await={:?} interim100={} -> HTTP/1.{} {} conn={:?} framing {:?}{}", cfg.summary(), body.len(), handshake, policy_await, interim.is_some(), plan.head.http11 as u8, plan.head.status, plan.head.get_all("connection").iter().map(|v| show_bytes(v)).collect::<Vec<_>>(), plan.truth, if all_five { " [all five close conditions]" } else { "" }));
    let start = match make_prepare(&cfg) {
        Ok(f) => f,
        Err(e) => fail!("FOREIGN", "", "cannot build flow: {}", e),
    };
    set_observed(true);
    let mut policy = Policy::draw(ctx, policy_await);
    policy.skip_interim = early;
    let ex = Exchange { prop: "C10", body: &body, policy, server: ServerPlan { msgs: vec![], close_after: plan.truth == RF::Close }, fixed_stream: Some(FixedStream { stream: &stream, consumed: 0, visible: 0, arrivals: arrivals.clone() }) };
    let obs = ex.run(ctx, start)?;
    if early && obs.responses.len() < 2 && !matches!(obs.terminal, Terminal::Redirect(_) | Terminal::Cleanup(_)) {
        // polling past a delivered interim head was refused: nothing to judge
        ctx.count("p:interim_poll_refused");
        ctx.nontrivial = true;
        return Ok(());
    }
    match &obs.terminal {
        Terminal::Stuck(s) => fail!("FOREIGN", "", "exchange stuck in {} ({})", s, obs.state_path()),
        Terminal::Error(s, e) => fail!("FOREIGN", "", "exchange failed in {}: {}", s, e),
        _ => {}
    }
    let rc = ref_close(&cfg, &plan, obs.refused_edge);
    let mut mask = 0u64;
    for (i, n) in ["http10", "client-close", "server-close", "not-100", "close-delimited"].iter().enumerate() {
        if rc.contains(n) {
            mask |= 1 << i;
        }
    }
    ctx.cell((mask as u32) * 2 + (obs.terminal.name() == "Redirect") as u32);
    ctx.sig3(mask, obs.edges.len() as u64, (obs.terminal.name() == "Redirect") as u64);
    ctx.sig(obs.schedule_sig());
    if rc.len() == 5 {
        ctx.count("p:all_five_conditions");
    }
    if obs.refused_edge {
        ctx.count("p:refused_while_awaiting_100");
    }
    if obs.gave_up_waiting {
        ctx.count("p:gave_up_waiting");
    }
    let mc = obs.must_close.unwrap_or(false);
    if mc && rc.is_empty() {
        fail!("C10.close_without_condition", "", "must_close_connection() is true in {} but none of the close conditions holds (reason {:?}; path {})", obs.terminal.name(), obs.reason, obs.state_path());
    }
    if !mc && !rc.is_empty() {
        fail!("C10.reuse_despite_condition", rc[0], "must_close_connection() is false in {} although {:?} hold(s) (path {})", obs.terminal.name(), rc, obs.state_path());
    }
    if mc != obs.reason.is_some() {
        fail!("C10.reason_mismatch", "", "must_close = {} but close_reason() = {:?}", mc, obs.reason);
    }
    if let Some(r) = obs.reason {
        match reason_class(r) {
            Some(c) => {
                if !rc.contains(&c) {
                    fail!("C10.reason_not_true", c, "close_reason() = {:?} names a condition that does not hold (true: {:?})", r, rc);
                }
            }
            None => ctx.count("p:reason_wording_unverifiable"),
        }
    }
    // Redirect -> Cleanup keeps the verdict
    let (mc2, r2) = match obs.terminal {
        Terminal::Redirect(mut f) => {
            // ---- history: the verdict of the next hop is about the request that hop really sent
            if ctx.chance(1, 3) {
                use ureq_proto::client::flow::RedirectAuthHeaders;
                if let Ok(Some(nf)) = lib("Flow<Redirect>::as_new_flow", || f.as_new_flow(RedirectAuthHeaders::Never)) {
                    let srv_close = ctx.chance(1, 4);
                    let stream2: &[u8] = if srv_close { b"HTTP/1.1 200 OK\r\nConnection: close\r\nContent-Length: 0\r\n\r\n" } else { b"HTTP/1.1 200 OK\r\nContent-Length: 0\r\n\r\n" };
                    let exh = Exchange { prop: "C10", body: &[], policy: Policy::canonical(AwaitPolicy::GiveUpAtOnce), server: ServerPlan::default(), fixed_stream: Some(FixedStream { stream: stream2, consumed: 0, visible: 0, arrivals: vec![stream2.len()] }) };
                    let oh = exh.run(ctx, nf)?;
                    if let (Terminal::Cleanup(_), Ok(Some(ph))) = (&oh.terminal, parse_request_head(oh.head())) {
                        let mut rch: Vec<&'static str> = Vec::new();
                        if ph.version == "HTTP/1.0" {
                            rch.push("http10");
                        }
                        if ph.fields.iter().any(|(n, v)| n == "connection" && v == b"close") {
                            rch.push("client-close");
                        }
                        if srv_close {
                            rch.push("server-close");
                        }
                        let mch = oh.must_close.unwrap_or(false);
                        ctx.count("p:verdict_at_redirect_depth");
                        if mch && rch.is_empty() {
                            fail!("C10.close_without_condition", "redirected", "the redirected exchange ends must-close (reason {:?}) but none of the close conditions holds for the request it sent: {:?}", oh.reason, show_bytes(oh.head()));
                        }
                        if !mch && !rch.is_empty() {
                            fail!("C10.reuse_despite_condition", "redirected", "the redirected exchange offers the connection for reuse although {:?} hold(s)", rch);
                        }
                        if let Some(c) = oh.reason.and_then(reason_class) {
                            if !rch.contains(&c) {
                                fail!("C10.reason_not_true", "redirected", "close_reason() = {:?} of the redirected exchange names a condition that does not hold for it (true: {:?}; request sent: {:?})", oh.reason, rch, show_bytes(oh.head()));
                            }
                        }
                    } else {
                        ctx.count("p:redirected_hop_not_completed");
                    }
                }
            }
            let c = lib("Flow<Redirect>::proceed", || f.proceed());
            (lib("Flow<Cleanup>::must_close_connection", || c.must_close_connection()), lib("Flow<Cleanup>::close_reason", || c.close_reason()))
        }
        _ => (mc, obs.reason),
    };
    ensure!(mc2 == mc && r2 == obs.reason, "C10.verdict_changed_in_cleanup", "verdict differs between Redirect ({}, {:?}) and Cleanup ({}, {:?})", mc, obs.reason, mc2, r2);
    // ---- the pool: a connection handed back is reused and the next exchange must work
    if !mc {
        ensure!(obs.consumed == msg_end, "C10.reusable_but_desynchronised", "connection offered for reuse after consuming {} of {} message bytes", obs.consumed, msg_end);
        ctx.count("f:pool_reuse");
        let cfg2 = ReqCfg { method: "GET".into(), version: 11, uri: cfg.uri.clone(), orig: vec![], added: vec![], despite: false, framing: crate::reqgen::Framing::None, expect: false };
        set_observed(false);
        let f2 = match make_prepare(&cfg2) {
            Ok(f) => f,
            Err(e) => fail!("FOREIGN", "", "cannot build flow: {}", e),
        };
        let ex2 = Exchange { prop: "C10", body: &[], policy: Policy::draw(ctx, AwaitPolicy::GiveUpAtOnce), server: ServerPlan::default(), fixed_stream: Some(FixedStream { stream: &stream, consumed: obs.consumed, visible: obs.consumed, arrivals }) };
        let o2 = ex2.run(ctx, f2)?;
        set_observed(true);
        let ok = matches!(o2.terminal, Terminal::Cleanup(_)) && o2.responses.len() == 1 && o2.responses[0].status == 200 && o2.resp_body == b"abc";
        if !ok {
            fail!("C10.reused_connection_broken", "", "the connection was offered for reuse but the next exchange on it failed: terminal {}, responses {:?}, body {:?}", o2.terminal.name(), o2.responses.iter().map(|r| r.status).collect::<Vec<_>>(), show_bytes(&o2.resp_body));
        }
    }
    ctx.nontrivial = true;
    Ok(())
}

// ============================================================================================ C11

pub fn c11(ctx: &mut Ctx) -> R {
    set_observed(false);
    // ---- an Expect request with a body
    let mut cfg = gen_valid_req(ctx, true, true);
    if !cfg.body_due() {
        cfg.method = if cfg.version == 10 { "POST".into() } else { ctx.pick(&["POST", "PUT", "PATCH"]).to_string() };
        cfg.despite = false;
    }
    if !cfg.expect {
        cfg.expect = true;
        cfg.orig.push(("expect".into(), b"100-continue".to_vec()));
    }
    // the method change may have left a body-less framing: regenerate the framing-free form
    if cfg.sized().is_none() {
        cfg.framing = crate::reqgen::Framing::None;
        cfg.orig.retain(|(n, _)| n != "transfer-encoding");
        cfg.added.retain(|(n, _)| n != "transfer-encoding");
    }
    if ctx.chance(1, 4) {
        cfg.orig.push(("connection".into(), b"close".to_vec()));
    }
    let body = gen_req_body(ctx, &cfg, true);
    // ---- peer behaviour
    // 0,1 = 100 then final after the body; 2 = refuse; 3 = silent; 4 = 100 and the final response
    // back to back right after the head (a server that does not wait for the body)
    let script = ctx.draw(5);
    let eager = script == 4;
    let script = if eager { 0 } else { script };
    let final_plan = loop {
        let status = match ctx.draw(4) {
            0 => 200,
            1 => *ctx.pick(&[401u16, 403, 413, 417, 500]),
            _ => gen_status(ctx),
        };
        let kind = ctx.draw(4);
        let (cl, te) = match kind {
            0 => (ClSpec::Absent, None),
            1 | 3 => (ClSpec::Num(ctx.range(0, 40) as u64), None),
            _ => (ClSpec::Absent, Some("chunked")),
        };
        let nf = if ctx.chance(1, 3) { 0 } else { ctx.range(0, 3) };
        // a bare head (no fields at all) is part of the quantifier
        let (cl, te) = if nf == 0 && ctx.chance(1, 2) { (ClSpec::Absent, None) } else { (cl, te) };
        let spec = RespSpec { status, http11: ctx.chance(3, 4), cl, te, conn: if ctx.chance(1, 4) { vec!["close"] } else { vec![] }, generic_fields: nf, location: if (300..400).contains(&status) && ctx.flip() { vec!["/r".into()] } else { vec![] }, location_raw: vec![], close_len: ctx.range(0, 60) };
        let p = build_resp(ctx, &cfg.method, &spec);
        if !matches!(p.truth, RF::DontCare | RF::Error) {
            break p;
        }
    };
    let think1 = *ctx.pick(&[0u64, 500, 50_000, 1_000_000, 30_000_000, 2_000_000_000]);
    let think2 = *ctx.pick(&[0u64, 1_000, 5_000_000]);
    let timeout = *ctx.pick(&[0u64, 300, 40_000, 1_000_000, 25_000_000, 1_000_000_000, 60_000_000_000]);
    let policy_await = if script != 3 && ctx.chance(1, 5) { AwaitPolicy::WaitDecision } else { AwaitPolicy::Timer(timeout) };
    let c100 = continue_100(ctx);
    // structural cuts of the first head the server sends
    let first = if script <= 1 { c100.clone() } else { final_plan.head_bytes.clone() };
    let sl = crate::refs::find(&first, b"\r\n").map(|i| i + 2).unwrap_or(first.len());
    let hl = first.len();
    let mut marks = vec![sl, sl.saturating_sub(1), sl + 1, hl, hl.saturating_sub(1)];
    if script == 2 {
        marks.extend(final_plan.line_ends.iter().copied());
    }
    let (mut cuts, _) = gen_arrival(ctx, hl, &marks, 80);
    if script == 2 {
        if let Some((a, b)) = final_plan.protected() {
            remove_protected(&mut cuts, &[(a, b)]);
            if cuts.last() != Some(&hl) {
                cuts.push(hl);
            }
        }
    }
    let mut msgs = Vec::new();
    // bytes the silent peer sends in front of its final response, the statuses of those heads that
    // must be handed to the caller, and how many 100s are among them
    let mut late_prefix: Vec<u8> = Vec::new();
    let mut late_statuses: Vec<u16> = Vec::new();
    let mut late_100s = 0usize;
    let mut final_bytes = final_plan.bytes();
    let prot = final_plan.protected();
    let one_seg = |b: &Vec<u8>| vec![b.len()];
    match script {
        0 | 1 => {
            msgs.push(ServerMsg { bytes: c100.clone(), trigger: Trigger::AfterRequestHead, think_ns: think1, cuts: cuts.clone() });
            let c = if prot.is_some() { one_seg(&final_bytes) } else { gen_arrival(ctx, final_bytes.len(), &[final_plan.head_bytes.len()], 40).0 };
            let trig = if eager { Trigger::AfterRequestHead } else { Trigger::AfterRequest };
            if eager {
                ctx.count("f:peer_final_right_behind_100");
            }
            msgs.push(ServerMsg { bytes: std::mem::take(&mut final_bytes), trigger: trig, think_ns: if eager { 0 } else { think2 }, cuts: c });
        }
        2 => {
            // the head is cut structurally, the body follows in one more segment
            let mut c = cuts.clone();
            if final_bytes.len() > hl {
                c.push(final_bytes.len());
            }
            msgs.push(ServerMsg { bytes: std::mem::take(&mut final_bytes), trigger: Trigger::AfterRequestHead, think_ns: think1, cuts: c });
        }
        _ => {
            // the silent peer may still send a (very) late 100 once the request has arrived: after
            // another interim head, twice, or just so
            // (not when the request is complete with its head: the peer would answer while the
            // caller is still awaiting, which is the refusal branch)
            let variant = if cfg.sized() == Some(0) { 7 } else { ctx.draw(8) };
            // (an interim-aware caller polls past every 102..199 head: the final one must not be one)
            let variant = if variant == 0 && final_plan.head.status < 200 { 7 } else { variant };
            match variant {
                0 => {
                    let i = interim_1xx(ctx, None);
                    late_statuses.push(((i[9] - b'0') as u16) * 100 + ((i[10] - b'0') as u16) * 10 + (i[11] - b'0') as u16);
                    late_prefix.extend_from_slice(&i);
                    late_prefix.extend_from_slice(&c100);
                    late_100s = 1;
                    ctx.count("f:interim_1xx_before_late_100");
                }
                1 => {
                    late_prefix.extend_from_slice(&c100);
                    late_prefix.extend_from_slice(&continue_100(ctx));
                    late_statuses.push(100);
                    late_100s = 2;
                    ctx.count("f:peer_late_100_twice");
                }
                2 => {
                    late_prefix.extend_from_slice(&c100);
                    late_100s = 1;
                }
                _ => {}
            }
            let mut all = late_prefix.clone();
            all.extend_from_slice(&final_bytes);
            final_bytes.clear();
            let c = if prot.is_some() { one_seg(&all) } else { gen_arrival(ctx, all.len(), &[late_prefix.len(), late_prefix.len() + final_plan.head_bytes.len()], 40).0 };
            msgs.push(ServerMsg { bytes: all, trigger: Trigger::AfterRequest, think_ns: think2, cuts: c });
        }
    }
    ctx.sample(|| format!("{} body={} | peer: {} think1={}ns think2={}ns | client: {:?} | first head {} bytes (status line {}), cuts {:?} | final {} {:?}", cfg.summary(), body.len(), match script { 0 | 1 => "100 then final after the body", 2 => "refuses with the final response", _ => "silent until the body arrived" }, think1, think2, policy_await, hl, sl, cuts, final_plan.head.status, final_plan.truth));
    let start = match make_prepare(&cfg) {
        Ok(f) => f,
        Err(e) => fail!("FOREIGN", "", "cannot build flow: {}", e),
    };
    set_observed(true);
    let mut policy = Policy::draw(ctx, policy_await);
    policy.skip_interim = late_statuses.iter().any(|s| *s != 100);
    policy.lat_ns = *ctx.pick(&[0u64, 200, 20_000, 3_000_000]);
    if ctx.chance(1, 5) {
        // aim the timer into the arrival window of the peer's first head: think time, then one
        // segment every <= 200 us, timer somewhere in between
        policy.lat_ns = 200_000;
        policy.think_ns = policy.think_ns.min(10_000);
        if let AwaitPolicy::Timer(_) = policy.await_policy {
            policy.await_policy = AwaitPolicy::Timer(think1.min(50_000_000) + ctx.draw(200_000 * (cuts.len() as u64 + 2)));
        }
        ctx.count("f:timer_aimed_into_head");
    }
    let policy_skip_interim = policy.skip_interim;
    let ex = Exchange { prop: "C11", body: &body, policy, server: ServerPlan { msgs, close_after: final_plan.truth == RF::Close }, fixed_stream: None };
    let obs = ex.run(ctx, start)?;

    ctx.sig(obs.schedule_sig());
    // ---- per-look oracle against the ground-truth first head
    let is_100 = script <= 1;
    let mut decided_refuse = false;
    let mut decided_100 = false;
    let mut looked_inside = false;
    for ev in &obs.await_log {
        ctx.sig3(if ev.len <= sl { 0 } else if ev.len < hl { 1 } else { 2 }, is_100 as u64, ev.can_keep_after as u64 * 2 + ev.result.as_ref().map(|n| (*n > 0) as u64).unwrap_or(3));
        if decided_refuse || decided_100 {
            // repeated decisive calls are C09's business
            continue;
        }
        ensure!(ev.at == 0, "C11.consumed_before_decision", "window starts at {} before any decision", ev.at);
        let r = match &ev.result {
            Ok(n) => *n,
            Err(e) => fail!("C11.error_while_awaiting", "", "try_read_100 failed on the first {} bytes of a well-formed head: {}", ev.len, e),
        };
        if ev.len < hl {
            looked_inside = true;
        }
        if ev.len <= sl {
            // inside the status line or right after it: decides nothing, consumes nothing
            ensure!(r == 0, "C11.consumed_early", "try_read_100 consumed {} bytes with only {} of the status line's {} bytes visible", r, ev.len, sl);
            ensure!(ev.can_keep_after, "C11.decided_on_status_line", "can_keep_await_100() turned false with {} bytes visible (status line is {} bytes, head {})", ev.len, sl, hl);
        } else if ev.len < hl {
            // between the status line and the end of the head: may be undecided or (non-100) refused
            ensure!(r == 0, "C11.consumed_partial_head", "try_read_100 consumed {} bytes of an incomplete head ({} of {})", r, ev.len, hl);
            if !ev.can_keep_after {
                if is_100 {
                    fail!("C11.decided_partial_100", "", "decision taken on an incomplete 100 head ({} of {} bytes)", ev.len, hl);
                }
                decided_refuse = true;
            }
        } else {
            // complete head visible
            if is_100 {
                ensure!(r == hl, "C11.100_not_consumed_exactly", "complete bare 100 of {} bytes (window {}): consumed {}", hl, ev.len, r);
                ensure!(!ev.can_keep_after, "C11.still_waiting_after_100", "still awaiting after a complete 100");
                decided_100 = true;
            } else {
                ensure!(r == 0, "C11.consumed_non_100", "a non-100 response must not be consumed while awaiting 100 (consumed {})", r);
                ensure!(!ev.can_keep_after, "C11.still_waiting_after_refusal", "still awaiting after a complete non-100 head ({} bytes visible)", ev.len);
                decided_refuse = true;
            }
        }
    }
    // ---- the edge out of Await100
    let went_await = obs.edges.iter().any(|e| e.1 == "Await100");
    ensure!(went_await, "C11.no_await_state", "an Expect request with a body did not enter Await100 (path {})", obs.state_path());
    let out_edge = obs.edges.iter().find(|e| e.0 == "Await100").map(|e| e.1);
    match out_edge {
        Some("SendBody") => {
            if decided_refuse {
                fail!("C11.body_sent_after_refusal", "", "the server refused (non-100 seen while awaiting) but the flow went on to SendBody");
            }
        }
        Some("RecvResponse") => {
            if !decided_refuse {
                fail!("C11.refused_without_refusal", if decided_100 { "after-100" } else { "gave-up" }, "the flow skipped the body although {} (path {})", if decided_100 { "a 100 was received" } else { "no response had been seen and the caller gave up waiting" }, obs.state_path());
            }
            ensure!(!obs.body_asked && obs.body_wire().is_empty(), "C11.body_sent_after_refusal", "body bytes on the wire after a refusal");
        }
        _ => {
            if let Terminal::Error(s, e) = &obs.terminal {
                fail!("C11.error_while_awaiting", "proceed", "failed in {}: {}", s, e);
            }
        }
    }
    if policy_skip_interim && obs.responses.len() == 1 && matches!(obs.terminal, Terminal::Stuck("RecvResponse") | Terminal::Error("RecvResponse", _)) {
        // polling past the delivered interim head was refused: nothing more to judge
        ctx.count("p:interim_poll_refused");
        ctx.nontrivial = true;
        return Ok(());
    }
    // ---- and the run continues to the end
    match &obs.terminal {
        Terminal::Error(s, e) => fail!("C11.flow_unusable", s, "after the handshake the flow failed in {}: {} (path {})", s, e, obs.state_path()),
        Terminal::Stuck(s) => fail!("C11.flow_unusable", "stuck", "after the handshake the flow is stuck in {} although the peer sent everything (path {}, {} calls)", s, obs.state_path(), obs.calls),
        _ => {}
    }
    // probes
    if decided_100 && !obs.gave_up_waiting {
        ctx.count("p:100_before_timer");
    }
    if obs.gave_up_waiting && obs.await_log.is_empty() {
        ctx.count("p:timer_before_any_byte");
        ctx.count("f:timer_early");
    }
    if obs.gave_up_waiting && looked_inside && is_100 {
        ctx.count("p:timer_inside_100");
    }
    if decided_refuse {
        ctx.count("p:refusal_seen");
        ctx.count("f:peer_early_response");
    }
    if obs.gave_up_waiting && !is_100 && script == 2 {
        ctx.count("p:refusal_after_giveup");
    }
    let late_100 = (is_100 && !decided_100) || late_100s > 0;
    if late_100 {
        ctx.count("p:late_100_skipped");
        ctx.count("f:peer_late_100");
    }
    // what was delivered
    // how the skip is split over calls is not part of the statement (one call may skip the late 100
    // and return the real response): that it was skipped shows in the single surfaced response
    // and in the consumed count below
    ensure!(obs.skipped_100 <= late_100 as usize, "C11.late_100_skip_count", "{} interim responses skipped, expected at most {}", obs.skipped_100, late_100 as usize);
    // exactly one late 100 is skipped: every other head is handed to the caller, in order
    let mut want_statuses = late_statuses.clone();
    want_statuses.push(final_plan.head.status);
    let got_statuses: Vec<u16> = obs.responses.iter().map(|r| r.status).collect();
    ensure!(got_statuses == want_statuses, "C11.response_count", "responses surfaced with statuses {:?}, the peer sent {:?} plus {} late 100 of which exactly one is to be skipped", got_statuses, want_statuses, late_100s);
    if let Err(e) = check_resp_obs(obs.responses.last().unwrap(), &final_plan.head) {
        fail!("C11.response_not_intact", "", "{}", e);
    }
    ensure!(obs.resp_body == final_plan.payload, "C11.response_body_not_intact", "response body {} bytes, server sent {}", obs.resp_body.len(), final_plan.payload.len());
    ensure!(obs.terminal.name() == final_plan.expect_terminal(), "C11.wrong_terminal", "ended in {} for status {}", obs.terminal.name(), final_plan.head.status);
    if out_edge == Some("SendBody") {
        match decode_req_body(obs.head(), obs.body_wire()) {
            Ok(b) => ensure!(b == body, "C11.request_body_wrong", "request payload on the wire differs from the body source"),
            Err(e) => fail!("C11.request_body_wrong", "decode", "request body on the wire: {}", e),
        }
    }
    if decided_refuse {
        ensure!(obs.must_close == Some(true), "C11.refusal_not_must_close", "the connection is offered for reuse after a refused Expect");
    }
    let consumed_want = if is_100 { c100.len() } else { 0 } + late_prefix.len() + final_plan.len();
    ensure!(obs.consumed == consumed_want, "C11.wrong_consumed", "consumed {} server bytes, messages are {} bytes", obs.consumed, consumed_want);
    ctx.nontrivial = true;
    Ok(())
}
