//! Generators: ground truth is known by construction, never by parsing.

use crate::ctx::Ctx;

// ---------------------------------------------------------------------------- response heads

#[derive(Clone, Debug)]
pub struct Field {
    pub name: String,
    pub ows_before: Vec<u8>,
    pub value: Vec<u8>,
    pub ows_after: Vec<u8>,
}

impl Field {
    pub fn plain(name: &str, value: &str) -> Field {
        Field { name: name.to_string(), ows_before: b" ".to_vec(), value: value.as_bytes().to_vec(), ows_after: Vec::new() }
    }
    pub fn render(&self, out: &mut Vec<u8>) {
        out.extend_from_slice(self.name.as_bytes());
        out.push(b':');
        out.extend_from_slice(&self.ows_before);
        out.extend_from_slice(&self.value);
        out.extend_from_slice(&self.ows_after);
        out.extend_from_slice(b"\r\n");
    }
    pub fn lname(&self) -> String {
        self.name.to_ascii_lowercase()
    }
}

#[derive(Clone, Debug)]
pub struct RespHead {
    pub http11: bool,
    pub status: u16,
    pub reason: Vec<u8>,
    pub fields: Vec<Field>,
}

pub struct Rendered {
    pub bytes: Vec<u8>,
    /// offset just after the CRLF of the status line, then of every field line; the final
    /// blank line ends at bytes.len()
    pub line_ends: Vec<usize>,
}

impl RespHead {
    pub fn render(&self) -> Rendered {
        let mut b = Vec::with_capacity(64 + self.fields.len() * 24);
        b.extend_from_slice(if self.http11 { b"HTTP/1.1 " } else { b"HTTP/1.0 " });
        b.extend_from_slice(format!("{:03}", self.status).as_bytes());
        b.push(b' ');
        b.extend_from_slice(&self.reason);
        b.extend_from_slice(b"\r\n");
        let mut line_ends = vec![b.len()];
        for f in &self.fields {
            f.render(&mut b);
            line_ends.push(b.len());
        }
        b.extend_from_slice(b"\r\n");
        Rendered { bytes: b, line_ends }
    }
    pub fn get_all(&self, lname: &str) -> Vec<&[u8]> {
        self.fields.iter().filter(|f| f.lname() == lname).map(|f| f.value.as_slice()).collect()
    }
    pub fn simple(status: u16, fields: Vec<Field>) -> RespHead {
        RespHead { http11: true, status, reason: b"OK".to_vec(), fields }
    }
}

const NAME_CHARS: &[u8] = b"abcdefghijklmnopqrstuvwxyz0123456789-";
const NAME_CHARS_ODD: &[u8] = b"ABCXYZ_!#$%&'*+.^`|~";

pub fn gen_token_name(ctx: &mut Ctx) -> String {
    let len = if ctx.chance(1, 12) { ctx.range(1, 40) } else { ctx.range(1, 10) };
    let odd = ctx.chance(1, 6);
    let mut s = String::with_capacity(len + 2);
    s.push_str("x-");
    for _ in 0..len {
        let c = if odd && ctx.chance(1, 3) { *ctx.pick(NAME_CHARS_ODD) } else { *ctx.pick(NAME_CHARS) };
        s.push(c as char);
    }
    s
}

/// A field value without leading/trailing whitespace: VCHAR / obs-text, inner SP / HTAB.
pub fn gen_value(ctx: &mut Ctx) -> Vec<u8> {
    let len = match ctx.draw(8) {
        0 => 0,
        1 => ctx.range(1, 2),
        2 => ctx.range(20, 120),
        _ => ctx.range(1, 16),
    };
    let obs = ctx.chance(1, 5);
    let mut v = Vec::with_capacity(len);
    for i in 0..len {
        let inner = i > 0 && i + 1 < len;
        let c = match ctx.draw(12) {
            0 if inner => b' ',
            1 if inner => b'\t',
            2 if obs => 0x80 + ctx.draw(128) as u8,
            3 => *ctx.pick(b":;,=\"()/"),
            _ => b'a' + ctx.draw(26) as u8,
        };
        v.push(c);
    }
    v
}

pub fn gen_ows(ctx: &mut Ctx) -> Vec<u8> {
    match ctx.draw(8) {
        0 => Vec::new(),
        1 => b"\t".to_vec(),
        2 => b"  ".to_vec(),
        3 => b" \t ".to_vec(),
        _ => b" ".to_vec(),
    }
}

pub fn gen_field(ctx: &mut Ctx) -> Field {
    let name = gen_token_name(ctx);
    let value = gen_value(ctx);
    let ows_before = gen_ows(ctx);
    let ows_after = if ctx.chance(1, 4) { gen_ows(ctx) } else { Vec::new() };
    Field { name, ows_before, value, ows_after }
}

pub fn gen_reason(ctx: &mut Ctx) -> Vec<u8> {
    match ctx.draw(8) {
        0 => Vec::new(),
        1 => {
            let n = ctx.range(20, 200);
            (0..n).map(|i| if i % 7 == 6 { b' ' } else { b'A' + (i % 26) as u8 }).collect()
        }
        2 => vec![b'O', 0xe9, b'K', 0x80, 0xff],
        3 => b"Not\tFound".to_vec(),
        4 => b"Moved Permanently".to_vec(),
        _ => b"OK".to_vec(),
    }
}

pub fn gen_status(ctx: &mut Ctx) -> u16 {
    match ctx.draw(10) {
        0 => ctx.range(101, 199) as u16,
        1 | 2 => *ctx.pick(&[200u16, 201, 204, 205, 206, 299]),
        3 | 4 => *ctx.pick(&[300u16, 301, 302, 303, 304, 305, 307, 308, 399]),
        5 => ctx.range(400, 599) as u16,
        6 => ctx.range(600, 999) as u16,
        _ => ctx.range(101, 999) as u16,
    }
}

/// Number of generic fields: mostly few, sometimes at the 128 limit.
pub fn gen_field_count(ctx: &mut Ctx, max: usize) -> usize {
    match ctx.draw(16) {
        0 => 0,
        1 => max,
        2 => max.saturating_sub(1),
        3 => ctx.range(0, max),
        4 | 5 => ctx.range(0, 12.min(max)),
        _ => ctx.range(0, 4.min(max)),
    }
}

// ------------------------------------------------------------------------------ chunked coding

#[derive(Clone, Debug)]
pub struct ChunkSpan {
    /// offset of the chunk's data in the coding
    pub data_at: usize,
    pub len: usize,
    /// offset of the chunk's data in the payload
    pub payload_at: usize,
}

#[derive(Clone, Debug, Default)]
pub struct Coding {
    pub bytes: Vec<u8>,
    pub payload: Vec<u8>,
    pub chunks: Vec<ChunkSpan>,
    /// grammar class of every coding byte (see `gc`)
    pub class: Vec<u8>,
    /// the bytes are only the beginning of a coding whose (huge) chunk never completes
    pub incomplete: bool,
}

/// grammar classes for coverage and structural cuts
pub mod gc {
    pub const SIZE: u8 = 0;
    pub const EXT: u8 = 1;
    pub const SIZE_CR: u8 = 2;
    pub const SIZE_LF: u8 = 3;
    pub const DATA: u8 = 4;
    pub const DATA_CR: u8 = 5;
    pub const DATA_LF: u8 = 6;
    pub const LAST_SIZE: u8 = 7;
    pub const TRAILER: u8 = 8;
    pub const TRAILER_CR: u8 = 9;
    pub const TRAILER_LF: u8 = 10;
    pub const FINAL_CR: u8 = 11;
    pub const FINAL_LF: u8 = 12;
    pub const COUNT: u8 = 13;
}

pub struct CodingOpts {
    pub sizes: Vec<usize>,
    pub upper: bool,
    pub leading_zeros: usize,
    pub ext: bool,
    pub trailers: usize,
    pub payload_seed: u64,
    /// pad every size line to exactly 20 bytes (the decoder's limit) with leading zeros
    pub exact20: bool,
    /// bad whitespace (RFC 9112 section 7.1.1 BWS, which a recipient must accept) in front of the
    /// ';' of a chunk extension: 0 = none, 1 = SP, 2 = HTAB
    pub bws: u8,
}

fn push(c: &mut Coding, bytes: &[u8], class: u8) {
    for &b in bytes {
        c.bytes.push(b);
        c.class.push(class);
    }
}

/// Encode per RFC 9112 §7.1 with the drawn options. The size line (digits + extension) is kept
/// <= 20 bytes: the decoder's deliberate sanity limit is treated as a resource limit.
pub fn encode_chunked(o: &CodingOpts) -> Coding {
    let mut c = Coding::default();
    let mut ppos = 0u64;
    for (k, &sz) in o.sizes.iter().enumerate() {
        let hex = if o.upper { format!("{:X}", sz) } else { format!("{:x}", sz) };
        let ext_s: &str = match o.bws { 1 => " ;e=1", 2 => "\t;e=1", _ => ";e=1" };
        let ext_len = if o.ext && k % 2 == 0 { ext_s.len() } else { 0 };
        let zeros = if o.exact20 { 20usize.saturating_sub(hex.len() + ext_len) } else { o.leading_zeros.min(20usize.saturating_sub(hex.len() + if o.ext { ext_s.len() } else { 0 })) };
        let mut line = "0".repeat(zeros);
        line.push_str(&hex);
        push(&mut c, line.as_bytes(), gc::SIZE);
        if o.ext && k % 2 == 0 {
            let ext = if line.len() + ext_s.len() <= 20 { ext_s } else { "" };
            push(&mut c, ext.as_bytes(), gc::EXT);
        }
        push(&mut c, b"\r", gc::SIZE_CR);
        push(&mut c, b"\n", gc::SIZE_LF);
        let data_at = c.bytes.len();
        let data = crate::drive::body_bytes(o.payload_seed, ppos, sz);
        push(&mut c, &data, gc::DATA);
        c.chunks.push(ChunkSpan { data_at, len: sz, payload_at: c.payload.len() });
        c.payload.extend_from_slice(&data);
        ppos += sz as u64;
        push(&mut c, b"\r", gc::DATA_CR);
        push(&mut c, b"\n", gc::DATA_LF);
    }
    let last = if o.exact20 {
        if o.ext { "000000000000000" } else { "00000000000000000000" }
    } else if o.leading_zeros > 0 {
        ["00", "000", "00000000"][o.leading_zeros % 3]
    } else {
        "0"
    };
    push(&mut c, last.as_bytes(), gc::LAST_SIZE);
    if o.ext {
        push(&mut c, match o.bws { 1 if !o.exact20 => &b" ;last"[..], 2 if !o.exact20 => &b"\t;last"[..], _ => &b";last"[..] }, gc::EXT);
    }
    push(&mut c, b"\r", gc::SIZE_CR);
    push(&mut c, b"\n", gc::SIZE_LF);
    for t in 0..o.trailers {
        let line = if t == 0 { &b"x-checksum: abc123"[..] } else { &b"x-t2:v;0"[..] };
        push(&mut c, line, gc::TRAILER);
        push(&mut c, b"\r", gc::TRAILER_CR);
        push(&mut c, b"\n", gc::TRAILER_LF);
    }
    push(&mut c, b"\r", gc::FINAL_CR);
    push(&mut c, b"\n", gc::FINAL_LF);
    c
}

pub const SMALL_SIZES: [usize; 9] = [1, 2, 3, 15, 16, 255, 256, 4095, 4096];

pub fn gen_coding(ctx: &mut Ctx) -> Coding {
    let small_scope = ctx.chance(3, 4);
    let sizes: Vec<usize> = if small_scope {
        let n = ctx.range(0, 3);
        (0..n).map(|_| if ctx.chance(2, 3) { ctx.range(1, 3) } else { *ctx.pick(&SMALL_SIZES) }).collect()
    } else {
        let n = ctx.range(1, 12);
        let big = ctx.chance(1, 6);
        (0..n).map(|_| if big { ctx.range(1, 12_000) } else { ctx.range(1, 300) }).collect()
    };
    let o = CodingOpts {
        sizes,
        upper: ctx.flip(),
        leading_zeros: if ctx.chance(1, 3) { ctx.range(1, 6) } else { 0 },
        ext: ctx.chance(1, 3),
        trailers: if ctx.chance(1, 3) { ctx.range(1, 2) } else { 0 },
        payload_seed: ctx.draw(1 << 32),
        exact20: ctx.chance(1, 8),
        bws: if ctx.chance(1, 4) { ctx.range(1, 2) as u8 } else { 0 },
    };
    encode_chunked(&o)
}

/// The beginning of a coding whose single chunk is declared with 2^32 bytes or more; only the
/// first few thousand data bytes ever arrive.
pub fn gen_huge_chunk_prefix(ctx: &mut Ctx) -> Coding {
    let mut c = Coding::default();
    let declared: u64 = (1u64 << 32) + if ctx.flip() { 0 } else { ctx.draw(1 << 20) } + if ctx.chance(1, 4) { 1u64 << 40 } else { 0 };
    let line = if ctx.flip() { format!("{:x}", declared) } else { format!("{:X}", declared) };
    push(&mut c, line.as_bytes(), gc::SIZE);
    push(&mut c, b"\r", gc::SIZE_CR);
    push(&mut c, b"\n", gc::SIZE_LF);
    let n = ctx.range(1, 3000);
    let seed = ctx.draw(1 << 32);
    let data = crate::drive::body_bytes(seed, 0, n);
    let data_at = c.bytes.len();
    push(&mut c, &data, gc::DATA);
    c.chunks.push(ChunkSpan { data_at, len: n, payload_at: 0 });
    c.payload = data;
    c.incomplete = true;
    c
}

// --------------------------------------------------------------------------- arrival schedules

#[derive(Clone, Copy, Debug, PartialEq, Eq)]
pub enum ArrMode {
    OneShot,
    Trickle,
    Random,
    Structural,
    Mixed,
}

/// A strictly increasing list of visible-prefix lengths ending at `total`.
/// `marks` are grammar boundaries; structural mode cuts at a mark +-1.
pub fn gen_arrival(ctx: &mut Ctx, total: usize, marks: &[usize], max_cuts: usize) -> (Vec<usize>, ArrMode) {
    if total == 0 {
        return (vec![0], ArrMode::OneShot);
    }
    let mode = match ctx.draw(8) {
        0 => ArrMode::OneShot,
        1 => ArrMode::Trickle,
        2 | 3 => ArrMode::Random,
        4 | 5 => ArrMode::Structural,
        _ => ArrMode::Mixed,
    };
    let mut cuts: Vec<usize> = Vec::new();
    match mode {
        ArrMode::OneShot => {}
        ArrMode::Trickle => {
            if total <= max_cuts {
                cuts.extend(1..total);
            } else {
                // trickle a window, coarse elsewhere
                let start = ctx.range(0, total - 1);
                let end = (start + max_cuts / 2).min(total);
                cuts.extend((start + 1)..end);
                let n = ctx.range(0, 6);
                for _ in 0..n {
                    cuts.push(ctx.range(1, total));
                }
            }
        }
        ArrMode::Random => {
            let n = ctx.range(1, 12.min(max_cuts));
            for _ in 0..n {
                cuts.push(ctx.range(0, total));
            }
        }
        ArrMode::Structural | ArrMode::Mixed => {
            let n = ctx.range(1, 10.min(max_cuts));
            for _ in 0..n {
                if !marks.is_empty() && (mode == ArrMode::Structural || ctx.flip()) {
                    let m = *ctx.pick(marks);
                    let d = ctx.range(0, 4);
                    let p = (m + 2).saturating_sub(d);
                    cuts.push(p.min(total));
                } else {
                    cuts.push(ctx.range(0, total));
                }
            }
        }
    }
    cuts.push(total);
    cuts.sort_unstable();
    cuts.dedup();
    cuts.retain(|c| *c <= total);
    (cuts, mode)
}

#[derive(Clone, Copy, Debug, PartialEq, Eq)]
pub enum BufMode {
    Large,
    Tiny,
    Random,
    Mixed,
    One,
}

pub fn gen_buf_mode(ctx: &mut Ctx) -> BufMode {
    match ctx.draw(6) {
        0 | 1 => BufMode::Large,
        2 => BufMode::Tiny,
        3 => BufMode::Random,
        4 => BufMode::One,
        _ => BufMode::Mixed,
    }
}

pub fn gen_buf_len(ctx: &mut Ctx, mode: BufMode) -> usize {
    match mode {
        BufMode::Large => 65_536,
        BufMode::Tiny => ctx.range(0, 4),
        BufMode::One => 1,
        BufMode::Random => ctx.range(0, 600),
        BufMode::Mixed => match ctx.draw(4) {
            0 => 65_536,
            1 => ctx.range(0, 4),
            2 => ctx.range(5, 64),
            _ => ctx.range(0, 5000),
        },
    }
}
