#!/usr/bin/env python3
"""Regenerate /verif/MANIFEST.json from the table below (keeps the file valid at all times)."""
import json, os, sys
HERE = os.path.dirname(os.path.dirname(os.path.abspath(__file__)))

TRUST = ("Trusted base: the harness itself (simulated clock, transport, peers, caller loop, reference models in "
         "sim/src/refs.rs), rustc, and the generators staying inside the soundness rules of DESIGN.md section 7. "
         "Seeded search samples; a clean batch is evidence, not proof.")

# id -> (category, text, design_ref, technique, extra note)
CHECKS = {
 "C09": ("exploration", "Seeded random walks over every public method of every flow state (accessors, mutators, I/O with drawn slices, readiness query, advance - also premature and repeated after a decision) interleaved with the arrival of a scripted server stream; oracle: no panic, readiness query iff a ground-truth model says the stage is complete, proceed() yields a state iff ready, successor equals the documented graph on ground truth, and the flow returned by as_new_flow is really used. All 64 (state, call kind) pairs and all 13 graph edges are hit in every quick run.", "6/C09", "deterministic simulation: seeded random walk over call histories against a ground-truth state-graph model", ""),
 "C12": ("fault_enumeration", "Fault injection on the server byte stream: grammar-aware mutation sequences of valid exchanges under drawn schedules, an enumeration of every string up to length 3 (quick) / 4 (thorough) over a 23-symbol protocol alphabet offered to every server-facing call, and oversize items; a panic anywhere in a library call, a count beyond what was offered, output that is not an in-order copy of consumed input, or an exchange that does not come to rest within its step budget is a violation; state-advancing calls are made afterwards on whatever state is left.", "6/C12", "deterministic simulation with fault injection: enumerated alphabet strings + seeded mutation sequences on the s2c stream, panic / bound / hang oracles", ""),
 "C13": ("exploration", "Redirect chains of 1..4 hops played as histories in a world of simulated origins (3 hosts x 2 schemes x ports): the head of every hop is read at the receiving origin by a strict reference parser and checked for the original request's unique Cookie / Content-Length / Authorization secrets against the stated only-if condition, under both policies, all methods and statuses, with chains that leave and return, downgrade and upgrade.", "6/C13", "deterministic simulation: seeded multi-origin redirect histories, secrets observed at the receiving simulated origin", ""),
 "C14": ("exploration", "Same world with the rich Location grammar: the new flow's URI is compared with an independent RFC 3986 section 5.2 resolver applied to the last Location and the current hop's URI, the request line and derived Host are checked at the receiving origin, chains reach hop 4; must-error Locations must give an error, garbage must not panic nor lead to an origin that is neither current nor named.", "6/C14", "deterministic simulation: seeded redirect histories against an independent RFC 3986 resolver, observed at the receiving origin", ""),
 "C15": ("exploration", "Schedule-free: the result is a function of (method, status, policy). All 3600 first-hop cells are enumerated on every run through the real exchange and as_new_flow; a second hop makes hop k's method feed hop k+1; non-3xx statuses check the 'exactly' direction.", "6/C15", "exhaustive enumeration of the 3600 (method, status, policy, body) cells through the simulated exchange against the documented table (schedule-free)", ""),
 "C16": ("exploration", "Same world: at every Prepare (depth 0..3) a simulated cookie jar adds 0..60 hop-tagged headers incl. cookie / authorization / connection / host / framing names (trimmed to what C17 accepts); at the receiving origin every added header must be on the wire, in order, ahead of every original header.", "6/C16", "deterministic simulation: seeded redirect histories with a simulated cookie jar, headers observed at the receiving origin", ""),
 "C01": ("exploration", "Deterministic simulation of whole exchanges in a discrete-event world (simulated clock, in-order segment transport with drawn latencies, client think times, spurious wake-ups): 1..3 back-to-back exchanges on one fixed server byte stream under drawn arrival / output / piece / read-buffer schedules with queries interleaved. Oracles: (a) reference models for head, request payload, response head, response body, terminal state, verdict; (b) metamorphic equality with the canonical-schedule twin of the real code; (c) conservation: consumed == message length and the next exchange starts exactly there on the same stream; (d) bounded liveness once the schedule is fair; plus a peer-close sub-batch in which the exchange must not complete.", "6/C01", "deterministic simulation: seeded discrete-event schedules (arrival x buffer x think time x re-polls) with reference, metamorphic (canonical twin), conservation and bounded-liveness oracles", ""),
 "C06": ("exploration", "Schedule-free: the framing decision is a function of (method, status, version, Content-Length, Transfer-Encoding). All 4860 coarse cells are visited round-robin on every run (values inside a cell sampled by seed) through the real exchange path and compared with an independent RFC 9112 section 6.3 reference: error on non-numeric length, successor state, body_mode, delivered bytes, exact consumption; cells the statement does not decide are DontCare.", "6/C06", "seeded stratified configuration search (round-robin over 4860 cells) through the simulated exchange against an independent framing reference (schedule-free)", ""),
 "C10": ("exploration", "Simulated exchanges over the product of close-relevant features, with the Expect handshake outcome produced by the simulated timer racing drawn arrival latencies; the verdict at Redirect and Cleanup is compared with the set of close conditions that are true in the run (both directions coded separately), the reason is mapped to a true condition, the all-five cell is forced regularly, and a connection reported reusable is really reused for a next exchange on the same stream.", "6/C10", "deterministic simulation: seeded histories (timer race, handshake outcome) x configurations, verdict vs the set of true close conditions, pool-reuse continuation", ""),
 "C11": ("exploration", "The handshake as a real race in simulated time: a reactive simulated peer (100 / refusal / silence, drawn think time, structural segmentation of its first head) against the client's await-100 timer (0 .. 60 s simulated). Every look is judged by zone against the ground-truth head (status line: nothing decided or consumed; complete bare 100: consumed exactly; complete non-100: refused, nothing consumed), the edge out of Await100 must match the decision, and every branch is continued to Cleanup/Redirect with the delivered response, body, skip count and consumption checked.", "6/C11", "deterministic simulation: simulated timer vs peer think time vs segment latency race, zone oracle per look, continuation to completion", ""),
 "C02": ("exploration", "Seeded simulation of the send window while the request head is written: the one-shot head is strictly re-parsed and compared with an independent reference head (request line, caller-added then original headers, exactly one Host, exactly the framing header the body uses), then a second instance is written under drawn output-size sequences biased to len(next line)+{-1,0,+1}; every call must end on a line boundary, overflow iff the next line does not fit, concatenation identical to the one-shot head; extra writes after completion must emit nothing and the flow is then continued into the body state and a body is really sent. Also run at redirect depth 1..3 by the redirect world.", "6/C02", "deterministic simulation: seeded send-window schedules x generated requests, strict re-parse against a reference head, continuation into the body state", ""),
 "C05": ("exploration", "Seeded simulation of TCP segmentation of the response head: generated well-formed heads (0..128 fields, a 129..140 class, OWS/obs-text/empty values, repeated names, 3xx with Location anywhere) followed by arbitrary bytes, offered on drawn increasing arrival prefixes (every prefix for short heads) with re-polls to Flow, Call and the parser; strict prefix => need-more/0 consumed/not ready, complete => exact head and |H| consumed. The deliberate partial-redirect hack (D6) is recognised by a narrow signature and reported as KNOWN-FINDING; any other response-on-prefix is a violation.", "6/C05", "deterministic simulation: seeded arrival-prefix schedules (segmentation, re-polls) over generated heads with ground truth known by construction", ""),
 "C07": ("exploration", "Seeded simulation of a chunked download: valid codings (small-scope grammar 3 of 4 runs, random beyond) behind a real head and followed by a next message, delivered under drawn arrival cut sets (structural cuts at every grammar-class change) into drawn output sizes with boundary stopping on/off/toggled, re-polls, and a sub-batch where the peer closes mid-coding. Per read: counts bounded, payload in step with consumption, never past the coding, ended iff final CRLF consumed, one chunk per read with boundary stopping, bounded progress once the schedule is fair. Coverage is measured over 104 (grammar position x output class x stop) cells.", "6/C07", "deterministic simulation: seeded arrival/buffer schedules and peer-close faults over generated chunked codings with a ground-truth chunk map", ""),
 "C08": ("exploration", "Seeded simulation of length- and close-delimited downloads: each read compared with min(window, output, remaining) and the verbatim bytes, never past N with a next message in the window, complete iff N delivered, early peer close never completes; close-delimited bodies are passed through, always ready, and end must-close.", "6/C08", "deterministic simulation: seeded arrival/buffer schedules and peer-close faults against a min-of-three reference model", ""),
 "C17": ("exploration", "Schedule-free: the verdict is a function of the request configuration. A validity-biased generator (valid request + 0..2 mutations) is classified by an independent reference (Valid / Invalid / DontCare) and compared with the real first write, repeated 4 times with different buffers, on the flow and both single-call constructors; all 35 reachable (api, class) cells are hit in every quick run.", "6/C17", "seeded configuration search against an independent validity classifier through the real write path (schedule-free; repeated attempts are the only history)", ""),
 "C20": ("exploration", "Seeded prefix sweeps over generated request and response heads for limits N in {0,1,4,128}: complete head => exact method/status, version, fields, length; strict prefix within the limit => incomplete; too-many-headers exactly for complete heads over the limit (never within it); partial parser never errs within the limit and never reports a field not completely present.", "6/C20", "deterministic simulation of arrival prefixes (every byte boundary for heads <= 300 bytes) over generated heads with ground truth by construction", ""),
 "C03": ("exploration", "Seeded simulation of the caller/socket side of a chunked upload: random sequences of (input length, output buffer length) writes, finishing writes anywhere and repeated, writes after the end, on both APIs; every op's output is decoded by a strict reference chunk decoder and compared with the consumed input; finished-iff-terminator is checked after every op. Failures are minimised on the choice tape and replay exactly.", "6/C03", "deterministic simulation: seeded op-sequence search over buffer/backpressure schedules with a strict chunk-decoder oracle", ""),
 "C04": ("exploration", "Seeded simulation of a Content-Length upload: random write / direct-write-report / query sequences against a countdown reference model for N from 0 to u64::MAX, with zero-length inputs and buffers and overshoot-by-one attempts.", "6/C04", "deterministic simulation: seeded op-sequence search against a countdown reference model", ""),
 "C18": ("exploration", "Schedule-free: the outcome depends on the buffer size alone. Every n in 0..=30911 is swept on every run (both framings) through the real write path, larger n are sampled by seed. The simulator contributes the real call path, not interleavings.", "6/C18", "exhaustive sweep of the buffer-size knob 0..=30911 through the real write path plus seeded sampling above (schedule-free; no interleaving involved)", ""),
 "C19": ("exploration", "Seeded (input, buffer) pairs and whole-body loops through one fixed buffer (bounded liveness: the loop must end within ceil(body/max_input)+2 calls); progress, monotonicity in the offered input and comparison with the advertised-maximum offer are checked against the real writer.", "6/C19", "deterministic simulation: seeded backpressure schedules with a bounded-progress (liveness) oracle", ""),
}

NOT_YET = {
}

def main():
    props = [json.loads(l) for l in open(os.path.join(HERE, "properties.jsonl"))]
    checks = []
    na = []
    for p in props:
        i = p["id"]
        if i in CHECKS:
            cat, text, ref, tech, note = CHECKS[i]
            checks.append({
                "property_id": i,
                "quick_cmd": f"./check {i} quick",
                "thorough_cmd": f"./check {i} thorough",
                "evidence_file": f"/verif/evidence/{i}.json",
                "replay_cmd_template": f"./check {i} --replay {{path}}",
                "engine": "hootsim",
                "level_claimed": {"category": cat, "text": text, "design_ref": "DESIGN.md section " + ref},
                "level_note": (note + " " if note else "") + TRUST,
                "technique": tech,
            })
        else:
            na.append({"property_id": i, "reason": NOT_YET.get(i, "check not built yet - work in progress in this session; will be claimed once its scenario exists")})
    m = {
        "version": 1,
        "setup_cmd": "cd /verif/sim && sed 's#@REPO@#/repo#' Cargo.toml.in > Cargo.toml && CARGO_NET_OFFLINE=true RUSTFLAGS='--cfg ureq_proto_verif -Awarnings' cargo build --release --offline",
        "hooks": {
            "guard": "--cfg ureq_proto_verif",
            "enable": "RUSTFLAGS='--cfg ureq_proto_verif' is passed by ./check when it builds hootsim against /repo; no source hook exists (the simulator sits entirely outside the public sans-IO API), so the flag changes nothing in /repo",
            "baseline_off_cmd": "cd /repo && cargo test --workspace --no-fail-fast --offline",
            "source_commits": [],
            "add_only": True,
        },
        "engines": [{
            "name": "hootsim",
            "path": "/verif/sim",
            "serves_properties": [c["property_id"] for c in checks],
            "kind_free_text": "deterministic simulator with fault injection: one seeded PRNG -> choice tape decides every configuration, arrival / buffer / timer schedule and fault; reference-model oracles; tape delta-debugging; replay files",
        }],
        "checks": checks,
        "notes": "All checks: ./check <ID> quick|thorough, VERIF_SEED selects the batch. Replay: ./check <ID> --replay <file>. Known findings: /verif/known_findings.json.",
        "not_applicable": na,
    }
    json.dump(m, open(os.path.join(HERE, "MANIFEST.json"), "w"), indent=1)
    print("MANIFEST.json:", len(checks), "checks,", len(na), "not claimed")

main()
