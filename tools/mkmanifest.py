#!/usr/bin/env python3
"""Regenerate /verif/MANIFEST.json from the table below (keeps the file valid at all times)."""
import json, os, sys
HERE = os.path.dirname(os.path.dirname(os.path.abspath(__file__)))

TRUST = ("Trusted base: the harness itself (simulated clock, transport, peers, caller loop, reference models in "
         "sim/src/refs.rs), rustc, and the generators staying inside the soundness rules of DESIGN.md section 7. "
         "Seeded search samples; a clean batch is evidence, not proof.")

# id -> (category, text, design_ref, technique, extra note)
CHECKS = {
 "C03": ("exploration", "Seeded simulation of the caller/socket side of a chunked upload: random sequences of (input length, output buffer length) writes, finishing writes anywhere and repeated, writes after the end, on both APIs; every op's output is decoded by a strict reference chunk decoder and compared with the consumed input; finished-iff-terminator is checked after every op. Failures are minimised on the choice tape and replay exactly.", "6/C03", "deterministic simulation: seeded op-sequence search over buffer/backpressure schedules with a strict chunk-decoder oracle", ""),
 "C04": ("exploration", "Seeded simulation of a Content-Length upload: random write / direct-write-report / query sequences against a countdown reference model for N from 0 to u64::MAX, with zero-length inputs and buffers and overshoot-by-one attempts.", "6/C04", "deterministic simulation: seeded op-sequence search against a countdown reference model", ""),
 "C18": ("exploration", "Schedule-free: the outcome depends on the buffer size alone. Every n in 0..=30911 is swept on every run (both framings) through the real write path, larger n are sampled by seed. The simulator contributes the real call path, not interleavings.", "6/C18", "exhaustive sweep of the buffer-size knob 0..=30911 through the real write path plus seeded sampling above (schedule-free; no interleaving involved)", ""),
 "C19": ("exploration", "Seeded (input, buffer) pairs and whole-body loops through one fixed buffer (bounded liveness: the loop must end within ceil(body/max_input)+2 calls); progress, monotonicity in the offered input and comparison with the advertised-maximum offer are checked against the real writer.", "6/C19", "deterministic simulation: seeded backpressure schedules with a bounded-progress (liveness) oracle", ""),
}

NOT_YET = {
}

def main():
    props = [json.loads(l) for l in open(os.path.join(HERE, "properties.jsonl"))]
    checks = []
    na = []
    for p in props:
        i = p["id"]
        if i in CHECKS:
            cat, text, ref, tech, note = CHECKS[i]
            checks.append({
                "property_id": i,
                "quick_cmd": f"./check {i} quick",
                "thorough_cmd": f"./check {i} thorough",
                "evidence_file": f"/verif/evidence/{i}.json",
                "replay_cmd_template": f"./check {i} --replay {{path}}",
                "engine": "hootsim",
                "level_claimed": {"category": cat, "text": text, "design_ref": "DESIGN.md section " + ref},
                "level_note": (note + " " if note else "") + TRUST,
                "technique": tech,
            })
        else:
            na.append({"property_id": i, "reason": NOT_YET.get(i, "check not built yet - work in progress in this session; will be claimed once its scenario exists")})
    m = {
        "version": 1,
        "setup_cmd": "cd /verif/sim && sed 's#@REPO@#/repo#' Cargo.toml.in > Cargo.toml && CARGO_NET_OFFLINE=true RUSTFLAGS='--cfg ureq_proto_verif -Awarnings' cargo build --release --offline",
        "hooks": {
            "guard": "--cfg ureq_proto_verif",
            "enable": "RUSTFLAGS='--cfg ureq_proto_verif' is passed by ./check when it builds hootsim against /repo; no source hook exists (the simulator sits entirely outside the public sans-IO API), so the flag changes nothing in /repo",
            "baseline_off_cmd": "cd /repo && cargo test --workspace --no-fail-fast --offline",
            "source_commits": [],
            "add_only": True,
        },
        "engines": [{
            "name": "hootsim",
            "path": "/verif/sim",
            "serves_properties": [c["property_id"] for c in checks],
            "kind_free_text": "deterministic simulator with fault injection: one seeded PRNG -> choice tape decides every configuration, arrival / buffer / timer schedule and fault; reference-model oracles; tape delta-debugging; replay files",
        }],
        "checks": checks,
        "notes": "All checks: ./check <ID> quick|thorough, VERIF_SEED selects the batch. Replay: ./check <ID> --replay <file>. Known findings: /verif/known_findings.json.",
        "not_applicable": na,
    }
    json.dump(m, open(os.path.join(HERE, "MANIFEST.json"), "w"), indent=1)
    print("MANIFEST.json:", len(checks), "checks,", len(na), "not claimed")

main()
