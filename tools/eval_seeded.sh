#!/bin/bash
# Re-evaluate every seeded change under /verif/seeded/C*-w*m* with the current simulator sources
# (4 workers, scratch copies only). usage: tools/eval_seeded.sh <results.jsonl>
RES=${1:-/tmp/mut/results.frozen.jsonl}
mkdir -p "$(dirname "$RES")"; : > "$RES"
ls -d /verif/seeded/C*-w*m* > /tmp/mut/todo.seeded.txt
worker() { w=$1; n=0; while read d; do n=$((n+1)); [ $((n % 4)) -eq $w ] || continue; id=$(basename "$d" | cut -d- -f1); HOOTMUT_TARGET=/tmp/hootmut-target-$w VERIF_JOBS=6 python3 /verif/tools/eval_mutant.py "$d" "$id" --confirm >> $RES.$w 2>>/tmp/mut/eval.err; done < /tmp/mut/todo.seeded.txt; }
for w in 0 1 2 3; do worker $w & done; wait
cat $RES.0 $RES.1 $RES.2 $RES.3 >> $RES 2>/dev/null; rm -f $RES.0 $RES.1 $RES.2 $RES.3
echo done
