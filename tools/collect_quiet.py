#!/usr/bin/env python3
"""Update seeded/{refactor,benign,revert}-*/meta.json from a results file of tools/eval_final.sh.
usage: collect_quiet.py <results.jsonl> ...   (prints a summary)"""
import json, os, sys
q = a = rv = rvc = 0
alarms = []
for f in sys.argv[1:]:
    for l in open(f):
        l = l.strip()
        if not l:
            continue
        r = json.loads(l)
        name = os.path.basename(r["mutant"])
        mp = os.path.join("/verif/seeded", name, "meta.json")
        if not os.path.exists(mp) or r.get("error") or "caught_by" not in r:
            continue
        meta = json.load(open(mp))
        cb = r["caught_by"]
        if name.startswith(("refactor-", "benign-")):
            meta["alarms"] = cb
            meta["quiet"] = not cb
            meta["ran"] = "final pass tools/eval_final.sh: scratch worktree of /repo HEAD + patch, every check's quick tier (default VERIF_SEED) against it"
            q += 1
            if cb:
                a += 1
                alarms.append((name, cb))
        elif name.startswith("revert-"):
            meta["caught_by"] = cb
            meta["primary_check_catches_it"] = meta.get("property") in cb
            rv += 1
            rvc += meta["primary_check_catches_it"]
        else:
            continue
        json.dump(meta, open(mp, "w"), indent=1)
print(f"benign changes evaluated: {q}, with an alarm: {a}; reverts evaluated: {rv}, caught by the original check: {rvc}")
for n, cb in alarms:
    print("ALARM", n, cb)
