#!/bin/bash
# evaluate every delivered mutant under /tmp/mut/wt-*/MUTANTS/m* that has no result yet
RES=/tmp/mut/results.jsonl
touch $RES
for d in /tmp/mut/wt-*/MUTANTS/m*; do
  [ -f "$d/patch.diff" ] || continue
  grep -q "\"$d\"" $RES && continue
  id=$(echo "$d" | sed -E 's#.*/wt-(C[0-9]+)[^/]*/MUTANTS/.*#\1#')
  python3 /verif/tools/eval_mutant.py "$d" "$id" --confirm >> $RES 2>/tmp/mut/eval.err
done
echo done
