#!/bin/bash
# evaluate every delivered mutant under /tmp/mut/wt-*/MUTANTS/m* that has no result yet, 4 workers
RES=${1:-/tmp/mut/results.jsonl}
touch $RES
ls -d /tmp/mut/wt-*/MUTANTS/m* | while read d; do [ -f "$d/patch.diff" ] && ! grep -q "\"$d\"" $RES && echo "$d"; done > /tmp/mut/todo.txt
worker() { w=$1; n=0; while read d; do n=$((n+1)); [ $((n % 4)) -eq $w ] || continue; id=$(echo "$d" | sed -E 's#.*/wt-(C[0-9]+)[^/]*/MUTANTS/.*#\1#'); HOOTMUT_TARGET=/tmp/hootmut-target-$w VERIF_JOBS=6 python3 /verif/tools/eval_mutant.py "$d" "$id" --confirm >> $RES.$w 2>>/tmp/mut/eval.err; done < /tmp/mut/todo.txt; }
for w in 0 1 2 3; do worker $w & done; wait
cat $RES.0 $RES.1 $RES.2 $RES.3 >> $RES 2>/dev/null; rm -f $RES.0 $RES.1 $RES.2 $RES.3
echo done
