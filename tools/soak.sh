#!/bin/bash
# Zero-alarm soak on the unchanged tree: every check, N different VERIF_SEED values, given tier.
# usage: tools/soak.sh [seeds=100] [tier=quick] [scale=1]  -> evidence/soak-<tier>.txt
HERE="$(cd "$(dirname "$0")/.." && pwd)"
SEEDS=${1:-100}; TIER=${2:-quick}; SCALE=${3:-1}
OUT=$(mktemp -d /dev/shm/hootsoak.XXXXXX)
VERIF_OUT="$OUT" "$HERE/check" C18 quick > /dev/null 2>&1 || true   # make sure the binary is built against /repo
BIN="$HERE/sim/target/release/hootsim"
export VERIF_DIR="$HERE" VERIF_OUT="$OUT" VERIF_SCALE="$SCALE"
START=$(date +%s)
IDS=${VERIF_IDS:-$("$BIN" --list | cut -d' ' -f1)}   # VERIF_IDS="C09 C14": only these (result file gets the ids as a suffix)
SUFFIX=${VERIF_IDS:+-$(echo $VERIF_IDS | tr ' ' '+')}
: > "$OUT/log.txt"
for s in $(seq 1 $SEEDS); do
  seed=$((s*104729+7))
  for id in $IDS; do
    VERIF_SEED=$seed "$BIN" $id $TIER 2>&1 | grep -E "^hootsim: C|VIOLATION|HARNESS|WARNING" | sed "s/^/seed=$seed /" >> "$OUT/log.txt"
  done
done
END=$(date +%s)
{
  echo "soak: $(date -u +%FT%TZ) tier=$TIER scale=$SCALE seeds=$SEEDS (VERIF_SEED = s*104729+7, s=1..$SEEDS), unchanged tree $(git -C /repo rev-parse --short HEAD)"
  echo "check executions: $(grep -c 'hootsim: C' "$OUT/log.txt")  wall: $((END-START)) s"
  echo "total simulated runs: $(grep -o 'runs=[0-9]*' "$OUT/log.txt" | cut -d= -f2 | paste -sd+ | bc)"
  echo "VIOLATION lines: $(grep -c VIOLATION "$OUT/log.txt")   harness errors: $(grep -c HARNESS "$OUT/log.txt")   foreign-abort warnings: $(grep -c WARNING "$OUT/log.txt")"
  grep -E "VIOLATION|HARNESS|WARNING" "$OUT/log.txt" | head -20
} > "$HERE/evidence/soak-$TIER$SUFFIX.txt"
cat "$HERE/evidence/soak-$TIER$SUFFIX.txt"
cp "$OUT"/replays/* "$HERE/replays/" 2>/dev/null
rm -rf "$OUT"
