#!/bin/bash
# Run every check's thorough tier once (default seed) against /repo and record the timings.
HERE="$(cd "$(dirname "$0")/.." && pwd)"
cd "$HERE"
OUT="$HERE/evidence/thorough-timing.txt"
{
  echo "thorough tier, default VERIF_SEED, 16 workers, tree $(git -C /repo rev-parse --short HEAD), $(date -u +%FT%TZ)"
} > "$OUT"
rc=0
for id in $(sim/target/release/hootsim --list | cut -d' ' -f1); do
  s=$(date +%s.%N)
  line=$(./check $id thorough 2>&1 | grep -E "^hootsim: C|VIOLATION|HARNESS|WARNING" | tr '\n' ' ')
  r=$?
  e=$(date +%s.%N)
  printf "%s  %6.1f s  %s\n" "$id" "$(echo "$e - $s" | bc)" "$line" >> "$OUT"
  echo "$line" | grep -qE "VIOLATION|HARNESS" && rc=1
done
echo "total: $(awk '{s+=$2} END {print s}' "$OUT") s" >> "$OUT"
cat "$OUT"
exit $rc
