#!/bin/bash
# Final sensitivity pass with the current simulator sources over every stored change under
# /verif/seeded, quick tier, default VERIF_SEED, 4 workers, scratch copies only.
#   mutants (C??-w*)      : the primary check; if it misses, all checks
#   reverts, benign, refactor : all checks
# No --confirm here (the confirmation flags are kept from the pass that stored the change).
# usage: tools/eval_final.sh <results.jsonl> [<already-done.jsonl>]
RES=${1:-/tmp/mut/results.final2.jsonl}; DONE=${2:-/dev/null}
mkdir -p "$(dirname "$RES")"; : > "$RES"
ls -d /verif/seeded/*/ | sed 's#/$##' | while read d; do grep -q "\"$d\"" "$DONE" || echo "$d"; done > /tmp/mut/todo.final.txt
worker() { w=$1; n=0; while read d; do n=$((n+1)); [ $((n % 4)) -eq $w ] || continue; b=$(basename "$d");
  case "$b" in
    C*) id=${b%%-*}; out=$(HOOTMUT_TARGET=/tmp/hootmut-target-$w VERIF_JOBS=4 python3 /verif/tools/eval_mutant.py "$d" "$id" --checks "$id" 2>>/tmp/mut/eval.err)
        if echo "$out" | grep -q '"primary_caught": true'; then echo "$out" | sed 's/}$/, "scope": "primary-only"}/' >> $RES.$w; else HOOTMUT_TARGET=/tmp/hootmut-target-$w VERIF_JOBS=4 python3 /verif/tools/eval_mutant.py "$d" "$id" >> $RES.$w 2>>/tmp/mut/eval.err; fi;;
    revert-*) id=$(python3 -c "import json;print(json.load(open('$d/meta.json'))['property'])"); HOOTMUT_TARGET=/tmp/hootmut-target-$w VERIF_JOBS=4 python3 /verif/tools/eval_mutant.py "$d" "$id" >> $RES.$w 2>>/tmp/mut/eval.err;;
    *) HOOTMUT_TARGET=/tmp/hootmut-target-$w VERIF_JOBS=4 python3 /verif/tools/eval_mutant.py "$d" NONE >> $RES.$w 2>>/tmp/mut/eval.err;;
  esac; done < /tmp/mut/todo.final.txt; }
for w in 0 1 2 3; do worker $w & done; wait
cat $RES.0 $RES.1 $RES.2 $RES.3 >> $RES 2>/dev/null; rm -f $RES.0 $RES.1 $RES.2 $RES.3
echo done
