#!/usr/bin/env python3
"""Evaluate one seeded change (mutant) against the checks.

usage: eval_mutant.py <dir with patch.diff [+ demo.rs]> <primary property id> [--confirm] [--checks C01,C02|all] [--tier quick]

Steps (all in scratch copies outside /repo and /verif, removed afterwards):
  --confirm : in a scratch worktree of /repo HEAD: the patch applies, `cargo test --workspace
              --offline` passes with it, the demo fails with it and passes without it.
  checks    : build a private copy of /verif/sim against the patched worktree and run the
              selected checks (default: all) in the quick tier; report which ones raise a VIOLATION.
Prints one JSON line with the result.
"""
import json, os, shutil, subprocess, sys, tempfile, time

REPO = "/repo"
VERIF = "/verif"
ENV = dict(os.environ, CARGO_NET_OFFLINE="true")
# the repository's own tests are built into a per-worker target dir so that the dependencies are
# compiled once, not once per scratch worktree
TEST_ENV = dict(ENV, CARGO_TARGET_DIR=os.environ.get("HOOTMUT_TARGET", "/tmp/hootmut-target") + "-test")


def sh(cmd, cwd=None, env=None, timeout=1800):
    p = subprocess.run(cmd, shell=True, cwd=cwd, env=env or ENV, capture_output=True, text=True, timeout=timeout)
    return p.returncode, p.stdout + p.stderr


def main():
    args = sys.argv[1:]
    mdir = os.path.abspath(args[0])
    primary = args[1]
    confirm = "--confirm" in args
    checks = "all"
    tier = "quick"
    for i, a in enumerate(args):
        if a == "--checks":
            checks = args[i + 1]
        if a == "--tier":
            tier = args[i + 1]
    patch = os.path.join(mdir, "patch.diff")
    demo = os.path.join(mdir, "demo.rs")
    res = {"mutant": mdir, "primary": primary}
    work = tempfile.mkdtemp(prefix="hootmut.", dir="/tmp")
    wt = os.path.join(work, "wt")
    try:
        rc, out = sh(f"git -C {REPO} worktree add --detach {wt} HEAD")
        if rc != 0:
            res["error"] = "worktree: " + out[-300:]
            return res
        if confirm and os.path.exists(demo):
            os.makedirs(os.path.join(wt, "tests"), exist_ok=True)
            shutil.copy(demo, os.path.join(wt, "tests", "demo.rs"))
            rc, out = sh("cargo test --offline --test demo 2>&1 | tail -5", cwd=wt, env=TEST_ENV)
            res["demo_passes_without"] = ("test result: ok" in out) and ("FAILED" not in out)
        rc, out = sh(f"git apply {patch}", cwd=wt)
        if rc != 0:
            res["error"] = "patch does not apply: " + out[-300:]
            return res
        if confirm:
            rc, out = sh("cargo test --offline --test demo 2>&1 | tail -8", cwd=wt, env=TEST_ENV) if os.path.exists(demo) else (1, "")
            res["demo_fails_with"] = ("FAILED" in out) or ("panicked" in out) or ("error" in out and "test result: ok" not in out)
            if os.path.exists(os.path.join(wt, "tests")):
                shutil.rmtree(os.path.join(wt, "tests"))
            rc, out = sh("cargo test --workspace --offline 2>&1 | grep -E '^test result|FAILED|^error' | head", cwd=wt, env=TEST_ENV)
            oks = out.count("test result: ok")
            res["suite_passes_with"] = oks >= 2 and "FAILED" not in out and "error" not in out
            res["suite_out"] = out.strip().replace("\n", " | ")[:300]
        # ---- private sim copy
        sim = os.path.join(work, "sim")
        shutil.copytree(os.path.join(VERIF, "sim", "src"), os.path.join(sim, "src"))
        shutil.copy(os.path.join(VERIF, "sim", "Cargo.lock"), sim)
        toml = open(os.path.join(VERIF, "sim", "Cargo.toml.in")).read().replace("@REPO@", wt)
        open(os.path.join(sim, "Cargo.toml"), "w").write(toml)
        env = dict(ENV, RUSTFLAGS="--cfg ureq_proto_verif -Awarnings", CARGO_TARGET_DIR=os.environ.get("HOOTMUT_TARGET", "/tmp/hootmut-target"))
        t0 = time.time()
        rc, out = sh("cargo build --release --offline -q", cwd=sim, env=env)
        res["build_s"] = round(time.time() - t0, 1)
        if rc != 0:
            res["error"] = "hootsim build failed: " + out[-400:]
            return res
        binp = os.environ.get("HOOTMUT_TARGET", "/tmp/hootmut-target") + "/release/hootsim"
        outdir = os.path.join(work, "out")
        os.makedirs(outdir)
        env2 = dict(ENV, VERIF_DIR=VERIF, VERIF_OUT=outdir)
        rc, lst = sh(f"{binp} --list", env=env2)
        ids = [l.split()[0] for l in lst.strip().splitlines()]
        if checks != "all":
            ids = [i for i in ids if i in checks.split(",")]
        caught = {}
        for cid in ids:
            rc, out = sh(f"{binp} {cid} {tier}", env=env2, timeout=3600)
            if rc == 1:
                codes = [l.split("code=")[1].split()[0] for l in out.splitlines() if l.strip().startswith("violation code=")]
                caught[cid] = codes[:4]
            elif rc != 0:
                caught[cid] = ["EXIT%d:%s" % (rc, out.strip().splitlines()[-1][:120] if out.strip() else "")]
        res["caught_by"] = caught
        res["primary_caught"] = primary in caught
        # keep one replay of the primary for the record
        rp = os.path.join(outdir, "replays")
        if os.path.isdir(rp):
            res["replays"] = sorted(os.listdir(rp))[:6]
            keep = os.path.join(mdir, "replays")
            os.makedirs(keep, exist_ok=True)
            for f in sorted(os.listdir(rp))[:3]:
                shutil.copy(os.path.join(rp, f), keep)
        return res
    finally:
        sh(f"git -C {REPO} worktree remove --force {wt}")
        shutil.rmtree(work, ignore_errors=True)


if __name__ == "__main__":
    r = main()
    print(json.dumps(r))
