#!/bin/bash
# Replay self-test: for a sample of seeded changes, run the primary check against the patched
# scratch worktree, then re-execute every replay file it wrote in a fresh process and demand the
# same (property, code); then re-execute it against the unchanged tree and demand REPLAY-CLEAN.
# usage: tools/replay_selftest.sh [name ...]   -> evidence/replay-selftest.txt
HERE="$(cd "$(dirname "$0")/.." && pwd)"
NAMES=${@:-"C01-w1m2 C03-w2m1 C05-w1m1 C07-w1m1 C09-w1m3 C10-w1m1 C11-w2m3 C12-w1m1 C13-w1m1 C14-w1m1 C16-w1m3 C19-w1m2 revert-b1ff2c2 revert-c6a16e1"}
LOG="$HERE/evidence/replay-selftest.txt"
echo "replay self-test $(date -u +%FT%TZ), tree $(git -C /repo rev-parse --short HEAD)" > "$LOG"
ok=0; bad=0
for name in $NAMES; do
  d="$HERE/seeded/$name"; id=$(python3 -c "import json;print(json.load(open('$d/meta.json'))['property'])")
  wt=$(mktemp -d /tmp/hootrs.XXXXXX); rmdir $wt
  git -C /repo worktree add --detach $wt HEAD -q || continue
  (cd $wt && git apply "$d/patch.diff") || { git -C /repo worktree remove --force $wt; continue; }
  out=$(mktemp -d /tmp/hootrs-out.XXXXXX)
  VERIF_REPO=$wt VERIF_OUT=$out "$HERE/check" $id quick > $out/run.log 2>&1
  for f in $out/replays/*.json; do
    [ -f "$f" ] || continue
    want=$(python3 -c "import json;print(json.load(open('$f'))['code'])")
    got=$(VERIF_REPO=$wt "$HERE/check" $id --replay $f 2>&1 | grep -E "^violation code=" | head -1 | sed -E 's/^violation code=([^ ]+).*/\1/')
    clean=$(VERIF_REPO=/repo "$HERE/check" $id --replay $f 2>&1 | grep -c "REPLAY-CLEAN")
    if [ "$want" = "$got" ] && [ "$clean" = "1" ]; then ok=$((ok+1)); r=OK; else bad=$((bad+1)); r=MISMATCH; fi
    echo "$r $name $id want=$want got=$got clean_on_unchanged_tree=$clean tape=$(python3 -c "import json;j=json.load(open('$f'));print(len(j['tape']),'of',j['original_tape_len'])")" >> "$LOG"
  done
  git -C /repo worktree remove --force $wt; rm -rf $out
done
VERIF_OUT=$(mktemp -d /tmp/hootrs-out.XXXXXX) "$HERE/check" C18 quick > /dev/null 2>&1   # rebuild against /repo
echo "replay files reproduced exactly: $ok   mismatches: $bad" >> "$LOG"
cat "$LOG"
