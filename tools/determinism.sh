#!/bin/bash
# Determinism proof: every check, many VERIF_SEED values, each executed twice in separate
# processes at worker counts 1, 5 and 16; the FINGERPRINT (trace digest + every aggregated
# counter) must be identical across all six executions of a (check, seed) pair.
# usage: tools/determinism.sh [seeds=300] [scale=0.05]   -> evidence/determinism$SUFFIX.txt
HERE="$(cd "$(dirname "$0")/.." && pwd)"
SEEDS=${1:-300}; SCALE=${2:-0.05}
BIN="$HERE/sim/target/release/hootsim"
OUT=$(mktemp -d /dev/shm/hootdet.XXXXXX)
VERIF_OUT="$OUT" "$HERE/check" C18 quick > /dev/null 2>&1 || true   # make sure the binary is built against /repo
export VERIF_DIR="$HERE" VERIF_OUT="$OUT" VERIF_SCALE="$SCALE"
IDS=${VERIF_IDS:-$("$BIN" --list | cut -d' ' -f1)}   # VERIF_IDS="C09 C14": only these (result file gets the ids as a suffix)
SUFFIX=${VERIF_IDS:+-$(echo $VERIF_IDS | tr ' ' '+')}
one() { # id seed
  local id=$1 seed=$2 ref="" bad=0
  for jobs in 1 5 16 1 5 16; do
    fp=$(VERIF_SEED=$seed VERIF_JOBS=$jobs VERIF_OUT="$OUT/$id-$seed-$jobs-$RANDOM" "$BIN" $id quick 2>&1 | grep -E "^FINGERPRINT|VIOLATION|HARNESS" | tr '\n' ' ')
    if [ -z "$ref" ]; then ref="$fp"; elif [ "$fp" != "$ref" ]; then bad=1; echo "DIVERGE $id seed=$seed jobs=$jobs: [$fp] vs [$ref]"; fi
  done
  echo "OK? $bad $id $seed $ref"
}
export -f one; export BIN OUT
START=$(date +%s)
for id in $IDS; do for s in $(seq 1 $SEEDS); do echo "$id $((s*7919+13))"; done; done | xargs -P 16 -n 2 bash -c 'one "$0" "$1"' > "$OUT/log.txt" 2>&1
END=$(date +%s)
{
  echo "determinism proof: $(date -u +%FT%TZ) seeds/check=$SEEDS scale=$SCALE worker counts 1,5,16 x 2 executions each, separate processes"
  echo "pairs (check, seed): $(grep -c '^OK?' "$OUT/log.txt")  executions: $(( $(grep -c '^OK?' "$OUT/log.txt") * 6 ))  wall: $((END-START)) s"
  echo "divergences: $(grep -c '^DIVERGE' "$OUT/log.txt")"
  echo "violations or harness errors on the unchanged tree: $(grep -cE 'VIOLATION|HARNESS' "$OUT/log.txt")"
  grep -E '^DIVERGE' "$OUT/log.txt" | head -20
  grep -E 'VIOLATION|HARNESS' "$OUT/log.txt" | head -20
  for id in $IDS; do echo "  $id: $(grep -c "^OK? 0 $id " "$OUT/log.txt") of $SEEDS seeds identical across 6 executions"; done
} > "$HERE/evidence/determinism$SUFFIX.txt"
cat "$HERE/evidence/determinism$SUFFIX.txt"
rm -rf "$OUT"
