#!/usr/bin/env python3
"""Copy the confirmed seeded changes into /verif/seeded/ and regenerate DESIGN.md section 10a.

usage: collect_seeded.py <results.jsonl> [<results2.jsonl> ...]
Each results line comes from tools/eval_mutant.py --confirm (one per change).
"""
import json, os, re, shutil, sys

VERIF = "/verif"
def name_of(m, r):
    mm = re.search(r"wt-(C\d+)([bcd]?)/MUTANTS/m(\d)", m)
    ms = re.search(r"seeded/(C\d+)-(w\d)m(\d)$", m)
    if mm:
        return mm.group(1), f"{mm.group(1)}-{ {'': 'w1', 'b': 'w2', 'c': 'w3', 'd': 'w5'}[mm.group(2)] }m{mm.group(3)}"
    if ms:
        return ms.group(1), f"{ms.group(1)}-{ms.group(2)}m{ms.group(3)}"
    m4 = re.search(r"wt-M(\w+)/MUTANTS/m(\d)", m)
    if m4:
        # wave 4: written per source module, the property is named by the author (r['primary'])
        return r["primary"], f"{r['primary']}-w4{m4.group(1)}m{m4.group(2)}"
    m5 = re.search(r"seeded/(C\d+)-w4(\w+)m(\d)$", m)
    if m5:
        return m5.group(1), f"{m5.group(1)}-w4{m5.group(2)}m{m5.group(3)}"
    return None, None


# Rows are merged by change name in file order: confirmation flags are kept from the pass that
# has them; the checks' verdict comes from the latest pass. A latest pass that ran only the
# primary check ("scope": "primary-only") replaces the primary's entry and keeps the other
# checks' entries of the previous full pass.
rows = {}
src = {}
for f in sys.argv[1:]:
    for l in open(f):
        l = l.strip()
        if not l:
            continue
        r = json.loads(l)
        if r.get("error"):
            continue
        pid, name = name_of(r["mutant"], r)
        if not name:
            continue
        prev = rows.get(name, {})
        cur = dict(prev)
        for k in ("suite_passes_with", "suite_out", "demo_fails_with", "demo_passes_without"):
            if k in r:
                cur[k] = r[k]
        if "caught_by" in r:
            if r.get("scope") == "primary-only":
                cb = dict(prev.get("caught_by", {}))
                cb.pop(pid, None)
                cb.update(r["caught_by"])
                cur["caught_by"] = cb
                cur["also_from_previous_pass"] = True
            else:
                cur["caught_by"] = r["caught_by"]
                cur["also_from_previous_pass"] = False
            cur["primary_caught"] = pid in cur["caught_by"]
        cur["pid"] = pid
        if os.path.isdir(r["mutant"]) and os.path.exists(os.path.join(r["mutant"], "patch.diff")):
            src[name] = r["mutant"]
        rows[name] = cur

out = []
for name, r in sorted(rows.items()):
    pid = r["pid"]
    m = src.get(name, os.path.join(VERIF, "seeded", name))
    valid = bool(r.get("suite_passes_with") and r.get("demo_fails_with") and r.get("demo_passes_without"))
    if not valid:
        print("skip (not confirmed):", name, r.get("suite_passes_with"), r.get("demo_fails_with"), r.get("demo_passes_without"), r.get("error"))
        continue
    d = os.path.join(VERIF, "seeded", name)
    os.makedirs(d, exist_ok=True)
    for fn in ("patch.diff", "demo.rs", "README.md"):
        s_ = os.path.join(m, fn)
        if os.path.exists(s_) and os.path.abspath(s_) != os.path.abspath(os.path.join(d, fn)):
            shutil.copy(s_, os.path.join(d, fn))
    readme = open(os.path.join(d, "README.md")).read() if os.path.exists(os.path.join(d, "README.md")) else ""
    meta = {
        "name": name,
        "property": pid,
        "breaks": f"{pid} (written by an independent sub-agent that saw only the property text and a scratch worktree)",
        "needs_to_manifest": " ".join(readme.split())[:900],
        "confirmed": {
            "applies_to_repo_head": True,
            "existing_suite_passes_with_change": r.get("suite_passes_with"),
            "suite_output": r.get("suite_out"),
            "demo_fails_with_change": r.get("demo_fails_with"),
            "demo_passes_without_change": r.get("demo_passes_without"),
        },
        "ran": "confirmation: tools/eval_mutant.py <dir> %s --confirm (scratch worktree of /repo HEAD + patch, cargo test --workspace --offline, cargo test --test demo with/without the patch); checks: quick tier, default VERIF_SEED, against the patched worktree - final pass tools/eval_final.sh (primary check; all checks when the primary misses)%s" % (pid, "; the entries of the other checks come from the previous full pass" if r.get("also_from_previous_pass") else ""),
        "caught_by": r.get("caught_by", {}),
        "primary_check_catches_it": bool(r.get("primary_caught")),
    }
    json.dump(meta, open(os.path.join(d, "meta.json"), "w"), indent=1)
    out.append(meta)

# ---- DESIGN.md section 10a
lines = []
lines.append("## 10a. Sensitivity results: seeded changes and which checks catch them\n")
lines.append("Every change below was written by a fresh sub-agent that was given only the text of one property and a scratch")
lines.append("worktree (nothing from /verif); the `w4` changes come from a fourth, module-centric wave whose agents were given the")
lines.append("texts of all 20 properties and one source file each, and named the property their change breaks; the `w5` changes")
lines.append("come from the fifth wave (unusual but legal use, section 10), the `w6` changes from the sixth (follow-up session, one")
lines.append("change per agent, full pass with all checks, `tools/passes/results.w6.jsonl`). Each change was")
lines.append("confirmed here in a scratch worktree: it applies to /repo's HEAD, the")
lines.append("existing 70 tests + 5 doctests pass with it, its demonstration fails with it and passes without it. The checks were")
lines.append("then run (quick tier, default seed) against the patched worktree; the table is from the final pass with the final")
lines.append("simulator sources (`tools/eval_final.sh`: the primary check for every change, all checks where the primary misses; the")
lines.append("`also` column of changes the primary catches is from the previous full pass). `primary` = the check of the property the change")
lines.append("was written against; `also` = other checks that report a violation too. Files: `seeded/<name>/`.\n")
n = len(out)
caught = sum(1 for m in out if m["primary_check_catches_it"])
anyc = sum(1 for m in out if m["caught_by"])
lines.append(f"Totals: {n} confirmed changes; {caught} caught by the primary check; {anyc} caught by at least one check.\n")
lines.append("| change | primary check | first violation code of the primary | also caught by |")
lines.append("|---|---|---|---|")
for m in out:
    pid = m["property"]
    cb = m["caught_by"]
    prim = "**caught**" if m["primary_check_catches_it"] else "missed"
    code = (cb.get(pid) or ["-"])[0]
    also = ", ".join(k for k in sorted(cb) if k != pid) or "-"
    lines.append(f"| {m['name']} | {prim} | `{code}` | {also} |")
lines.append("")
lines.append("Changes the primary check does not report, and why (none of them was made to pass by loosening anything).")
lines.append("Four are reported by no check:")
lines.append("")
NOTES_NONE = {
 "C14-w2m1": "(`Location: http:foo`, scheme without `//`): RFC 3986 and the WHATWG URL rules disagree on this form, so it is outside the grammar C14 generates (section 7); the weak garbage-class oracle accepts the result because the host it produces occurs literally in the value.",
 "C17-w2m2": "(extension methods such as PROPFIND, or lower-case `get`, accepted on HTTP/1.1): C17's quantifier is over the standard methods; extension tokens are not generated.",
 "C17-w5m1": "(a Host value with obs-text bytes that happen to be valid UTF-8 is accepted): a non-textual Host is a DontCare cell of C17's reference - the statement lists the classes that must be refused and a non-textual Host is not among them, while the crate refuses it; neither behaviour is judged.",
 "C05-w5m3": "(the *partial* response parser forgets the version and reports HTTP/1.1): visible only in the response that the truncated-3xx leniency (known finding D6) hands out for an HTTP/1.0 head, or as the version of a partial parse through the public parser; no statement fixes the version of a partial result, and a response on a strict prefix is already the listed finding.",
}
NOTES_OTHER = {
 "C01-w2m2": "(`hex_len` treats 4096 as three digits): needs a request-body write with exactly 4103 bytes of output space and >= 4096 bytes offered - C19's territory; C01's buffer policies hit 4103 with probability ~1e-4 per call.",
 "C09-w2m1": "(body-less method with `content-length: 0` accepted, then `proceed()` panics): C09 walks only requests that C17 accepts.",
 "C09-w3m1": "(the analysed flag is set before validation, so a retried write of an invalid request goes through): again only reachable with a request C17 rejects.",
 "C05-w3m1": "(a stale \"nothing new arrived\" cache that is not reset when a 100 Continue is consumed): needs a 100 on the flow, which C05 excludes by its statement (status 100 belongs to C11).",
 "C17-w3m1": "(the coding-name comparison accepts prefixes, so `Transfer-Encoding: chunk` or an empty value counts as chunked on the request side): C17 classifies a Transfer-Encoding other than chunked as DontCare.",
 "C01-w5m2": "(`consume_direct_write` never ends a sized body): the direct-write report is an operation of C04's op sequences; C01's world sends the body through `write`.",
 "C01-w5m3": "(a plain push instead of the once-only helper in one branch of `try_read_100`: the sixth poll past the decision overflows the list): needs a caller that keeps polling `try_read_100` after `can_keep_await_100()` turned false, six times; C01's callers consult the query. C09 (calls repeated after they have decided) and C12 report it.",
 "C03-w5m1": "(`Call::into_receive` accepts an unfinished chunked body): a premature advance on the single-call API; C03 advances only when finished. C04's closing clause (advance succeeds iff finished, on both APIs) reports it.",
 "C09-w6m2": "(`Flow<RecvResponse>::can_proceed` tests \"a status was seen\" instead of \"the head is finished\"): the two differ only after a `100 Continue` head was taken in the receive state of a flow that is not waiting for one (an unsolicited 100 in front of the final head). C09's menu puts a 100 only in front of requests with Expect: 100-continue (where the skip of a late 100 leaves no status behind), so the false readiness is never on offer there, although the walk does query readiness after every poll. C11, C15 and C12, whose server scripts contain unsolicited interim heads, report the panic of the `proceed()` that the false readiness invites. Found in the follow-up session; the menu was not extended because changed sources could not be re-validated in the time left - the obvious extension is an unsolicited 100 in front of any final head in C09's stream.",
 "C09-w5m1": "(direct-write accounting decides `ended` from the count before the subtraction) and",
 "C09-w5m2": "(`into_receive` checks \"head written\" instead of \"body ended\"): both sit in the Content-Length upload path, which the C09 walk drives through `write`; C04 reports them.",
 "C18-w5m3": "(the Content-Length overshoot is checked after the write): needs a refused write in the history; C18 is schedule-free. C04 (`refused_write_changed_state`) reports it.",
 "C06-w5m3": "(a refused Expect suppresses the response body): needs the refusal branch of the Expect handshake before the response, which is C11's history; C06 does not use Expect. C11, C01 and C09 report it.",
 "C15-w5m2": "(a 3xx that arrives instead of 100 Continue is never a redirect): again the refusal branch of the Expect handshake, C11's history; C15 does not use Expect. C11, C01 and C09 report it.",
 "C07-w5m3": "(`CONNECT` answered with a non-2xx status is treated as body-less): C07 draws GET / DELETE / OPTIONS; C08 has the CONNECT case and reports it, as do C01, C06, C10, C11 and C09.",
 "C08-w5m3": "(the close-delimited close reason is recorded in `read()` instead of at the transition): changes nothing C08 states - bytes, counts, readiness; it shows in the reuse verdict after a body nobody read, and C10 and C01 report it.",
 "C11-w5m2": "(the no-op guard of `Flow<SendRequest>::write` tests \"finished\" instead of \"head written\": a repeated head write emits the terminating chunk): a variant of repaired defect D1; C11's callers do not write the head again once it is complete. C02, C03, C09, C18 and C19 report it.",
 "C18-w5m2": "(`Flow<SendBody>::write` clips the input to the advertised maximum, which turns data offered with 5..8 bytes of room into the end signal): the advertised amount itself is still consumed in one write - what C18 states. C03 (`premature_terminator`), C04, C19 and five exchange-level checks report it.",
 "C19-w5m1": "(the request-side `chunked` comparison becomes case-sensitive, so a Content-Length next to `Chunked` wins): C19's requests carry lower-case framing headers; C03 and C18 (mixed-case variants) report it, as do C02, C17 and C01.",
 "C19-w5m2": "(the body is marked ended even when the terminator did not fit): C19 offers data until the body is through and signals the end once with room to spare; C03 (`lost_terminator`) reports it, as do C01, C09 and C11.",
 "C19-w5m3": "(`Flow<SendBody>::write` consumes nothing while the await-100 flag is still set): needs an Expect request whose caller gave up waiting; C19's requests have no Expect. C11, C01, C02 and C12 report it.",
}
prim_missed = [m for m in out if not m["primary_check_catches_it"]]
for m in prim_missed:
    if not m["caught_by"]:
        lines.append(f"* **{m['name']}** " + NOTES_NONE.get(m["name"], "(no note)"))
lines.append("")
lines.append("The others are reported by the check in whose territory their trigger lies (`also caught by` in the table):")
lines.append("")
for m in prim_missed:
    if m["caught_by"]:
        lines.append(f"* **{m['name']}** " + NOTES_OTHER.get(m["name"], "(reported by " + ", ".join(sorted(m["caught_by"])) + ")"))
sec = "\n".join(lines) + "\n"
p = os.path.join(VERIF, "DESIGN.md")
s = open(p).read()
if "## 10a." in s:
    i = s.index("## 10a.")
    j = s.index("## 11.")
    s = s[:i] + sec + "\n" + s[j:]
else:
    j = s.index("## 11.")
    s = s[:j] + sec + "\n" + s[j:]
open(p, "w").write(s)
print(f"{n} seeded changes stored; primary caught {caught}; any {anyc}")
