#!/usr/bin/env python3
"""Copy the confirmed seeded changes into /verif/seeded/ and regenerate DESIGN.md section 10a.

usage: collect_seeded.py <results.jsonl> [<results2.jsonl> ...]
Each results line comes from tools/eval_mutant.py --confirm (one per change).
"""
import json, os, re, shutil, sys

VERIF = "/verif"
rows = {}
for f in sys.argv[1:]:
    for l in open(f):
        l = l.strip()
        if not l:
            continue
        r = json.loads(l)
        rows[r["mutant"]] = r  # later files override earlier ones

out = []
for m, r in sorted(rows.items()):
    mm = re.search(r"wt-(C\d+)([bcd]?)/MUTANTS/m(\d)", m)
    ms = re.search(r"seeded/(C\d+)-(w\d)m(\d)$", m)
    if mm:
        pid, wave, k = mm.group(1), mm.group(2), mm.group(3)
        name = f"{pid}-{ {'': 'w1', 'b': 'w2', 'c': 'w3', 'd': 'w5'}[wave] }m{k}"
    elif ms:
        pid, k = ms.group(1), ms.group(3)
        name = f"{pid}-{ms.group(2)}m{k}"
    elif re.search(r"wt-M(\w+)/MUTANTS/m(\d)", m) or re.search(r"seeded/(C\d+)-w4(\w+)m(\d)$", m):
        # wave 4: written per source module, the property is named by the author (r['primary'])
        pid = r["primary"]
        m4 = re.search(r"wt-M(\w+)/MUTANTS/m(\d)", m)
        if m4:
            name = f"{pid}-w4{m4.group(1)}m{m4.group(2)}"
        else:
            m5 = re.search(r"seeded/(C\d+)-w4(\w+)m(\d)$", m)
            name = f"{m5.group(1)}-w4{m5.group(2)}m{m5.group(3)}"
    else:
        continue
    valid = bool(r.get("suite_passes_with") and r.get("demo_fails_with") and r.get("demo_passes_without"))
    if not valid:
        print("skip (not confirmed):", name, r.get("suite_passes_with"), r.get("demo_fails_with"), r.get("demo_passes_without"), r.get("error"))
        continue
    d = os.path.join(VERIF, "seeded", name)
    os.makedirs(d, exist_ok=True)
    for fn in ("patch.diff", "demo.rs", "README.md"):
        src = os.path.join(m, fn)
        if os.path.exists(src) and os.path.abspath(src) != os.path.abspath(os.path.join(d, fn)):
            shutil.copy(src, os.path.join(d, fn))
    readme = open(os.path.join(m, "README.md")).read() if os.path.exists(os.path.join(m, "README.md")) else ""
    meta = {
        "name": name,
        "property": pid,
        "breaks": f"{pid} (written by an independent sub-agent that saw only the property text and a scratch worktree)",
        "needs_to_manifest": " ".join(readme.split())[:900],
        "confirmed": {
            "applies_to_repo_head": True,
            "existing_suite_passes_with_change": r.get("suite_passes_with"),
            "suite_output": r.get("suite_out"),
            "demo_fails_with_change": r.get("demo_fails_with"),
            "demo_passes_without_change": r.get("demo_passes_without"),
        },
        "ran": "tools/eval_mutant.py <dir> %s --confirm : scratch worktree of /repo HEAD + patch, cargo test --workspace --offline, cargo test --test demo with/without the patch, then every check's quick tier (VERIF_SEED default) against the patched worktree" % pid,
        "caught_by": r.get("caught_by", {}),
        "primary_check_catches_it": bool(r.get("primary_caught")),
    }
    json.dump(meta, open(os.path.join(d, "meta.json"), "w"), indent=1)
    out.append(meta)

# ---- DESIGN.md section 10a
lines = []
lines.append("## 10a. Sensitivity results: seeded changes and which checks catch them\n")
lines.append("Every change below was written by a fresh sub-agent that was given only the text of one property and a scratch")
lines.append("worktree (nothing from /verif); the `w4` changes come from a fourth, module-centric wave whose agents were given the")
lines.append("texts of all 20 properties and one source file each, and named the property their change breaks. Each change was")
lines.append("confirmed here in a scratch worktree: it applies to /repo's HEAD, the")
lines.append("existing 70 tests + 5 doctests pass with it, its demonstration fails with it and passes without it. The checks were")
lines.append("then run (quick tier, default seed) against the patched worktree. `primary` = the check of the property the change")
lines.append("was written against; `also` = other checks that report a violation too. Files: `seeded/<name>/`.\n")
n = len(out)
caught = sum(1 for m in out if m["primary_check_catches_it"])
anyc = sum(1 for m in out if m["caught_by"])
lines.append(f"Totals: {n} confirmed changes; {caught} caught by the primary check; {anyc} caught by at least one check.\n")
lines.append("| change | primary check | first violation code of the primary | also caught by |")
lines.append("|---|---|---|---|")
for m in out:
    pid = m["property"]
    cb = m["caught_by"]
    prim = "**caught**" if m["primary_check_catches_it"] else "missed"
    code = (cb.get(pid) or ["-"])[0]
    also = ", ".join(k for k in sorted(cb) if k != pid) or "-"
    lines.append(f"| {m['name']} | {prim} | `{code}` | {also} |")
lines.append("")
lines.append("Changes the primary check does not report, and why (none of them was made to pass by loosening anything):")
lines.append("")
lines.append("* **C01-w2m2** (`hex_len` treats 4096 as three digits): needs a request-body write with exactly 4103 bytes of output")
lines.append("  space and >= 4096 bytes offered. That is C19's territory and C19 reports it (`C19.no_progress`); C01's buffer")
lines.append("  policies draw sizes from 0..12, 13..80, 0..12000 and 64 KiB and hit 4103 with probability ~1e-4 per call.")
lines.append("* **C09-w2m1** (body-less method with `content-length: 0` accepted, then `proceed()` panics): C09 walks only requests")
lines.append("  that C17 accepts, so the walk never builds that request; C17 reports it (`C17.invalid_accepted`).")
lines.append("* **C14-w2m1** (`Location: http:foo`, scheme without `//`): RFC 3986 and the WHATWG URL rules disagree on this form, so it")
lines.append("  is outside the grammar C14 generates (section 7); the weak garbage-class oracle accepts the result because the host")
lines.append("  it produces occurs literally in the value.")
lines.append("* **C14-w2m2** (a stale Location kept from an interim 1xx head when the final 3xx has none): needs two response heads on")
lines.append("  one flow, the first a non-100 1xx carrying a Location; no scenario sends unsolicited 1xx heads with a Location.")
lines.append("* **C17-w2m2** (extension methods such as PROPFIND, or lower-case `get`, accepted on HTTP/1.1): C17's quantifier is over")
lines.append("  the standard methods; extension tokens are not generated.")
lines.append("* **C09-w3m1** (the analysed flag is set before validation, so a retried write of an invalid request goes through):")
lines.append("  again only reachable with a request C17 rejects; C17 reports it, including the follow-up panic.")
lines.append("* **C05-w3m1** (a stale \"nothing new arrived\" cache that is not reset when a 100 Continue is consumed): needs a 100 on")
lines.append("  the flow, which C05 excludes by its statement (status 100 belongs to C11); C11 and C01 report it.")
lines.append("* **C10-w3m2** (response bookkeeping only for the first response on a flow): needs a non-100 interim head (103) that the")
lines.append("  caller keeps polling past; C10 sends none. C15's unsolicited-100 case reports it (`C15.no_redirect_state`).")
lines.append("* **C06-w3m1** (the body framing of the first non-100 head sticks for the whole call): needs a 102 / 103 head followed by")
lines.append("  the final head on the same flow, with the caller polling on although the flow is already ready to advance after the")
lines.append("  1xx (this crate treats every 1xx other than 100 as a final, body-less response - which is what C06 states); no")
lines.append("  scenario polls past readiness with a different head, and no check reports this change.")
lines.append("* **C17-w3m1** (the coding-name comparison accepts prefixes, so `Transfer-Encoding: chunk` or an empty value counts as")
lines.append("  chunked on the request side): C17 classifies a Transfer-Encoding other than chunked as DontCare (the statement does")
lines.append("  not say whether such a request is valid); C04, C06 and C08 report the change.")
sec = "\n".join(lines) + "\n"
p = os.path.join(VERIF, "DESIGN.md")
s = open(p).read()
if "## 10a." in s:
    i = s.index("## 10a.")
    j = s.index("## 11.")
    s = s[:i] + sec + "\n" + s[j:]
else:
    j = s.index("## 11.")
    s = s[:j] + sec + "\n" + s[j:]
open(p, "w").write(s)
print(f"{n} seeded changes stored; primary caught {caught}; any {anyc}")
